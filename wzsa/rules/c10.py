"""C10 - configured form limits are enforced and are pure guards (structural clauses).

All clauses are decided on paths with a symbolic store over a normalised copy of each function
(wzsa/rules/_c09_helpers.py): helpers of the class / module are expanded in place (a guard in a helper, an
operation in a helper and the inline original have one CFG), conditional expressions are branches, every condition
is a canonical integer linear atom over the values at the start of the path.  A clause asks "do the conditions of
every path that performs the operation guarantee the bound", never "is there a statement that looks like the test".
"""

from __future__ import annotations

import ast
import re
import typing as t

from .. import astq
from ..loader import AnalysisError, ClassInfo, FuncInfo, dotted, norm, walk_no_nested
from ..report import Ctx
from ._c09_helpers import Ev, Lin, NFunc, Path, Sym, both, canon_atom, fold_access, implies_le, invariant_env, lin, mentions, normalise, symname
from ._c10_helpers import RETL, bind_call, callee_last, exceed_conds, raised_retl, roots_of
from . import c09 as _c09
from .c09 import input_stream_rule

LEVEL_TEXT = (
    "Static decision of structural clauses of C10 on /repo's current source, on all paths of a normalised form of each "
    "function (helpers expanded, conditional expressions as branches, conditions as canonical integer linear atoms over "
    "the values at the start of the path): (R10.1) on every path to a growth of the multipart decoder's buffer the "
    "conditions guarantee len(buffer)+len(data) <= max_form_memory_size (or the limit is None), every path that takes a "
    "comparison against the limit on its exceeded side ends in RequestEntityTooLarge, nothing else grows the buffer; "
    "(R10.2) every path of the method(s) that build a Field/File event moves the part counter by exactly one and "
    "guarantees counter <= max_parts at the exit (or the limit is None), other paths do not move it; (R10.3) in "
    "MultiPartParser.parse every path from taking an event to handing its data on guarantees accumulated size + "
    "len(event.data) <= max_form_memory_size, or the limit is None, or a condition holds that every File round establishes "
    "and every Field round refutes (a file part); the counter is kept at that sum and reset per Field; (R10.4) unbounded reads of the urlencoded body are preceded by a bound, and "
    "get_input_stream's decision table holds (shared with C09-R9.6); (R10.5) each of the three limits reaches the "
    "parameter of the same meaning of every constructor of the chain (by keyword or position, through aliases) and is "
    "stored in the attribute the guards read; request-level defaults are the documented ones; (R10.6) on every path of every "
    "function of the chain (also started at each loop head with the loop's state left open) a configured limit reaches only: an "
    "is-None test, an ordering comparison whose exceeded side ends in RequestEntityTooLarge, a parameter of the same meaning of "
    "the next constructor (by keyword, position or keyword dictionary), the same-named attribute, or the limit of a "
    "maximum-limited stream; it decides nothing by truth value or equality and is part of no other call argument, stored or "
    "returned value, of no object a method is applied to, of no sequence a loop runs over and of no `del x[...]` (operators, "
    "subscripts / slices and transparent builtins pass the dependence on) - non-interference, hence 'identical result "
    "when no guard fires'. A limit as the size of a read (`x.read(n)`, read1, readline, readlines, recv, peek, readinto - "
    "whatever the class of x, also through an alias of the bound method) is a truncation, hence a violation, unless every "
    "path that goes on without RequestEntityTooLarge knows len(result) < n (the read came back short: all input was seen); "
    "when the same object is read again later on the path or the read is one round of a loop this is not decided (exit 2). "
    "Whether a caller inspects what a sized read left in the stream is not modelled. Memory held inside the stdlib is not modelled. "
    "(R10.7) the streaming maximum is only as good as the stream class get_input_stream wraps the input in: for wsgi.LimitedStream "
    "the clauses of C09 that are necessary for 'never more than max_content_length bytes are taken from the underlying stream, "
    "going beyond raises RequestEntityTooLarge' are decided here by the same path analysis (shared with C09-R9.1/2/3/5, not a second "
    "implementation): the underlying stream is touched only inside readinto; on every path every underlying read / readinto is "
    "bounded by limit - position and happens only when limit - position >= 1, with nothing remaining on_exhausted() is called "
    "instead; the position is written nowhere else and moves by exactly the count the underlying call returned; on_exhausted "
    "raises RequestEntityTooLarge iff the limit is a maximum. What the other readers of io.RawIOBase do on top of readinto, and "
    "whether the wrapped object honours its own read(n) / readinto(b) contract, is not decided."
)
TRUSTED = ["CPython ast", "bytearray.extend(data) grows the buffer by len(data)", "x.read(n) / read1 / readline / readlines / recv / peek / readinto hand back at most n bytes, whatever x is",
           "io.RawIOBase routes read / readline / readlines / iteration through readinto / readall (R10.7, as in C09)"]
ASSUMPTIONS = [
    "SpooledTemporaryFile and parse_qsl internals are not followed",
    "limits, lengths and counters are ints or None, so a > b is a >= b + 1",
    "expanding a helper of the same class / module in place preserves its meaning (no recursion deeper than three levels, no generator helpers)",
    "an event object is an instance of at most one of the unrelated event classes; a callable kept in an instance attribute does not modify the instance",
]

LIMIT_ATTRS = {"max_form_memory_size", "max_form_parts", "max_parts", "max_content_length"}
GROW = {"extend": None, "append": 1, "insert": 1, "__iadd__": None, "write": None}


def _not_dunder(h: FuncInfo) -> bool:
    return not (h.name.startswith("__") and h.name.endswith("__"))


def _limit_skipped(conds: set, limit: str) -> bool:
    return (f"{limit} is None", True) in conds


def run(ctx: Ctx) -> None:
    repo = ctx.repo
    for rid, text in {
        "R10.1": "on every path to a growth of MultipartDecoder.buffer the conditions guarantee len(buffer) + len(data) <= max_form_memory_size (or the limit is None); a path on the exceeded side of a comparison with the limit raises RequestEntityTooLarge; nothing else grows the buffer",
        "R10.2": "every path of the method(s) that build a Field/File event moves the part counter by one and guarantees it is <= max_parts at the exit (or the limit is None); no other path moves it",
        "R10.3": "in MultiPartParser.parse every path that hands event.data on guarantees accumulated size + len(event.data) <= max_form_memory_size (or limit None / file part); the counter is reset at Field, None at File",
        "R10.4": "urlencoded body: an unbounded stream.read() is dominated by a size bound; get_input_stream decision table (declared length, streamed maximum)",
        "R10.5": "each limit reaches the same-named parameter of every constructor of the chain and is stored in the attribute the guards read; Request defaults 500000 / 1000 / None",
        "R10.6": "on every path a configured limit reaches only is-None tests, ordering comparisons whose exceeded side raises RequestEntityTooLarge, the same-meaning parameter / attribute of the next stage, or the limit of LimitedStream(is_max=True); never a read size (unless the read is known to have come back short wherever parsing goes on), a slice bound, an object a method works on, a loop's sequence",
        "R10.7": "the maximum-limited stream takes no more than its limit from the underlying stream (shared with C09-R9.1/2/3/5): the stream is touched only in LimitedStream.readinto, every underlying read there is bounded by limit - position and made only when that is >= 1, the position moves by exactly what was read, on_exhausted raises RequestEntityTooLarge iff the limit is a maximum",
    }.items():
        ctx.rule(rid, text)

    dec = repo.cls("sansio.multipart.MultipartDecoder")
    _r101(ctx, dec)
    _r102(ctx, dec)
    mp = repo.cls("formparser.MultiPartParser")
    _r103(ctx, mp)
    fp = repo.cls("formparser.FormDataParser")
    _r104(ctx, fp)
    input_stream_rule(ctx, "R10.4")
    _r105(ctx)
    _r106(ctx, dec, fp, mp)
    _r107(ctx)


# ---------------------------------------------------------------------
# R10.1


def _buffer_term(e: ast.AST | None) -> bool:
    return e is not None and (norm(e) == "self.buffer" or (isinstance(e, ast.Name) and e.id.startswith("self.buffer\u00b7")))


def _growths(p: Path) -> list[tuple[Ev, ast.AST, Lin | None]]:
    """(event, buffer term at that moment, number of bytes added) for every growth of self.buffer on the path."""
    out = []
    for e in p.events:
        if e.kind == "call" and isinstance(e.call, ast.Call) and isinstance(e.call.func, ast.Attribute) and _buffer_term(e.call.func.value) and e.call.func.attr in GROW:
            c = GROW[e.call.func.attr]
            if c is not None:
                added: Lin | None = Lin({}, c)
            else:
                a = e.call.args[0] if len(e.call.args) == 1 else None
                added = Lin({f"len({norm(a)})": 1}) if a is not None else None
            out.append((e, e.call.func.value, added))
        elif e.kind == "aug" and isinstance(e.raw, ast.AugAssign) and astq.is_self_attr(e.raw.target, "buffer"):
            out.append((e, ast.parse("self.buffer", mode="eval").body, Lin({f"len({norm(e.call.value)})": 1})))  # type: ignore[union-attr]
        elif e.kind == "store" and isinstance(e.call, ast.Assign) and isinstance(e.call.targets[0], ast.Subscript) and _buffer_term(e.call.targets[0].value):
            out.append((e, e.call.targets[0].value, Lin({f"len({norm(e.call.value)})": 1})))
    return out


def _r101(ctx: Ctx, dec: ClassInfo) -> None:
    repo = ctx.repo
    LIMIT = "self.max_form_memory_size"
    roots = roots_of(repo, dec, both(_not_dunder, mentions({"buffer", "max_form_memory_size", RETL})))
    sites: dict[int, tuple[FuncInfo, ast.AST, list[tuple[bool, str]]]] = {}
    exceeded: list[tuple[FuncInfo, Path]] = []
    for name, nf in sorted(roots.items()):
        if name == "__init__":
            continue
        touches = any((isinstance(x, ast.Attribute) and x.attr == "buffer") for x in ast.walk(nf.node))
        if not touches:
            continue
        paths = Sym(nf, repo=repo).paths()
        for p in paths:
            if exceed_conds(p, LIMIT):
                exceeded.append((nf.orig, p))
            for e, bterm, added in _growths(p):
                conds = p.cset(e.ncond)
                if added is None:
                    ok, fact = False, "growth by an unknown amount"
                elif _limit_skipped(conds, LIMIT):
                    ok, fact = True, "limit is None on this path"
                else:
                    total = Lin({f"len({norm(bterm)})": 1}) + added
                    ok = implies_le(conds, total, Lin({LIMIT: 1}))
                    fact = f"`{total.key()}` <= max_form_memory_size guaranteed: {ok}" + ("" if ok else f" on path {p.describe()[:200]}")
                sites.setdefault(id(e.raw), (nf.orig, e.raw, []))[2].append((ok, fact))
            # rebinding the attribute to something longer
            cur = p.env.get("self.buffer")
            shrinks = cur is not None and ((isinstance(cur, ast.Subscript) and _buffer_term(cur.value)) or (isinstance(cur, ast.Call) and dotted(cur.func) in ("bytearray", "bytes") and not cur.args and not cur.keywords))
            if cur is not None and not shrinks and not (isinstance(cur, ast.Name) and cur.id.startswith("self.buffer\u00b7")) and p.outcome in ("return", "fall"):
                rebinds = [s for s in p.steps if isinstance(s.ast, (ast.Assign, ast.AnnAssign)) and any(astq.is_self_attr(t_, "buffer") for t_ in (s.ast.targets if isinstance(s.ast, ast.Assign) else [s.ast.target]))]
                for s in rebinds:
                    sites.setdefault(id(s.ast), (nf.orig, s.ast, []))[2].append((False, f"buffer rebound to `{norm(cur)[:60]}`"))
    ctx.floor("R10.1", "buffer growth sites", len(sites), 1)
    for sid, (fi, raw, facts) in sites.items():
        ctx.saw(fi)
        ok = all(f[0] for f in facts)
        why = "; ".join(sorted({f[1] for f in facts}))
        ctx.ob("R10.1", f"{fi.qualname}: buffer growth is bounded", ok, f"`{norm(raw)}` on {len(facts)} path(s): {why}", fi, raw, f"growth {norm(raw)}")
    bad = [(fi, p) for fi, p in exceeded if not raised_retl(p) or _growths(p)]
    where = exceeded[0][0] if exceeded else dec.methods.get("receive_data")
    ctx.ob("R10.1", "a comparison with max_form_memory_size taken on its exceeded side raises RequestEntityTooLarge", bool(exceeded) and not bad,
           "; ".join(f"{fi.qualname}: {p.describe()[:200]}" for fi, p in bad[:3]) or f"{len(exceeded)} exceeded path(s), each raises RequestEntityTooLarge without growing the buffer", where, where.node if where else None, "buffer size test raises")
    outside = []
    for fi in repo.all_functions():
        if fi.cls is dec or fi.module.name not in ("werkzeug.formparser", "werkzeug.sansio.multipart"):
            continue
        for n in walk_no_nested(fi.node):
            if isinstance(n, ast.Call) and isinstance(n.func, ast.Attribute) and isinstance(n.func.value, ast.Attribute) and n.func.value.attr == "buffer" and n.func.attr in GROW:
                outside.append((fi, n))
            if isinstance(n, ast.AugAssign) and isinstance(n.target, ast.Attribute) and n.target.attr == "buffer" and not (fi.cls is not None and fi.cls is not dec and astq.is_self_attr(n.target)):
                outside.append((fi, n))
    ctx.ob("R10.1", "no code outside the decoder grows its buffer", not outside, f"{[x.fq for x, _ in outside]}", dec.fq, None, "buffer writers outside")


# ---------------------------------------------------------------------
# R10.2


def _attr_writers(cls: ClassInfo, attr: str) -> dict[str, list[ast.AST]]:
    out: dict[str, list[ast.AST]] = {}
    for name, fi in cls.methods.items():
        sn = fi.params[0] if fi.params else "self"
        for n in walk_no_nested(fi.node):
            if isinstance(n, (ast.Assign, ast.AugAssign, ast.AnnAssign)):
                tg = n.targets if isinstance(n, ast.Assign) else [n.target]
                flat = [y for x in tg for y in (x.elts if isinstance(x, (ast.Tuple, ast.List)) else [x])]
                if any(astq.is_self_attr(t_, attr, sn) for t_ in flat):
                    out.setdefault(name, []).append(n)
    return out


def _constructs_part(node: ast.AST) -> bool:
    return any(isinstance(c, ast.Call) and (dotted(c.func) or "").rsplit(".", 1)[-1] in ("Field", "File") for c in ast.walk(node))


def _r102(ctx: Ctx, dec: ClassInfo) -> None:
    repo = ctx.repo
    ne = dec.methods.get("next_event")
    if ne is None:
        raise AnalysisError("MultipartDecoder.next_event missing")
    ctx.saw(ne)
    COUNTER, LIMIT = "self._parts_decoded", "self.max_parts"
    want = both(_not_dunder, mentions({"_parts_decoded", "max_parts", "Field", "File", RETL}))
    # the methods in which a part event is built: next_event itself, or - when next_event dispatches through a table or by
    # name - the methods it reaches that way (they are entry points of their own: nothing calls them by a static name)
    roots = roots_of(repo, dec, want)
    roots_absorbed = {name for name in dec.methods if name not in roots_of(repo, dec, _not_dunder)}  # helpers that live only inside their callers
    builders = {name: nf for name, nf in roots.items() if name != "__init__" and _constructs_part(nf.node)}
    if not builders:
        raise AnalysisError("MultipartDecoder: no method that constructs a Field / File event was found (slot)")
    from ._c09_helpers import _LIN_OF_KEY

    allpaths: list[tuple[NFunc, Path]] = []
    for name, nf in sorted(builders.items()):
        for h, why in nf.refused:
            if mentions({"_parts_decoded", "max_parts", "Field", "File"})(h):
                raise AnalysisError(f"{name}: helper {h.name} cannot be expanded ({why})")
        ctx.saw(nf.orig)
        allpaths += [(nf, p) for p in Sym(nf, repo=repo).paths()]
    # the part counter: the attribute that a comparison with max_parts bounds (whatever it is called)
    cands: set[str] = set()
    for _, p in allpaths:
        for k, _, _ in p.conds:
            g = _LIN_OF_KEY.get(k) if k.startswith("GE0: ") else None
            if g is not None and LIMIT in g.terms:
                cands |= {tm.split("\u00b7")[0] for tm in g.terms if tm != LIMIT and tm.startswith("self.") and "(" not in tm}
    if len(cands) == 1:
        COUNTER = next(iter(cands))
    cattr = COUNTER.split(".", 1)[1]
    C0 = Lin({COUNTER: 1})
    per: dict[str, list[tuple[bool, str]]] = {}
    raws: dict[str, tuple[FuncInfo, ast.AST]] = {}
    stray = []
    exceeded = [p for _, p in allpaths if exceed_conds(p, LIMIT)]
    for nf, p in allpaths:
        cons = [e for e in p.events if e.kind == "call" and isinstance(e.raw, ast.Call) and (dotted(e.raw.func) or "").rsplit(".", 1)[-1] in ("Field", "File")]
        if p.outcome not in ("return", "fall"):
            continue
        cur = lin(p.env[COUNTER]) if COUNTER in p.env else C0
        delta = (cur - C0) if cur is not None else None
        moved = delta.const if delta is not None and delta.is_const() else None
        if not cons:
            if moved != 0:
                stray.append(f"{p.describe()[:160]}: counter moves by {delta.key() if delta is not None else '?'} without a part")
            continue
        conds = p.cset()
        counted = moved == len(cons)
        bounded = _limit_skipped(conds, LIMIT) or (cur is not None and implies_le(conds, cur, Lin({LIMIT: 1})))
        for e in cons:
            nm = (dotted(e.raw.func) or "").rsplit(".", 1)[-1]  # type: ignore[union-attr]
            raws.setdefault(nm, (nf.orig, e.raw))
            fact = f"counter moves by {delta.key() if delta is not None else '?'} (one per part: {counted}); counter <= max_parts at the exit or limit None: {bounded}"
            if not (counted and bounded):
                fact += f" on path {p.describe()[:220]}"
            per.setdefault(nm, []).append((counted and bounded, fact))
    ctx.floor("R10.2", "Field/File constructions", len(per), 2)
    for nm, facts in sorted(per.items()):
        ok = all(f[0] for f in facts)
        ctx.ob("R10.2", f"`{nm}(...)` event is counted and bounded", ok, "; ".join(sorted({f[1] for f in facts if not f[0]})[:2]) or f"{len(facts)} path(s): {facts[0][1]}", ne, raws[nm][1], f"part event {nm}")
    bad_exc = [p for p in exceeded if not raised_retl(p)]
    ctx.ob("R10.2", "a comparison with max_parts taken on its exceeded side raises RequestEntityTooLarge", bool(exceeded) and not bad_exc, "; ".join(p.describe()[:200] for p in bad_exc[:3]) or f"{len(exceeded)} exceeded path(s), each raises RequestEntityTooLarge", ne, ne.node, "parts test raises")
    writers = _attr_writers(dec, cattr)
    accounted = set(builders) | {h.name for nf in builders.values() for h in nf.inlined if h.cls is dec}
    init_nf = normalise(repo, dec.methods["__init__"], _not_dunder) if "__init__" in dec.methods else None
    init_paths = [p for p in Sym(init_nf, repo=repo).paths() if p.outcome in ("return", "fall")] if init_nf is not None else []
    accounted |= {h.name for h in (init_nf.inlined if init_nf is not None else []) if h.cls is dec and h.name in roots_absorbed}
    init_ok = bool(init_paths) and all(isinstance(p.env.get(COUNTER), ast.Constant) and p.env[COUNTER].value == 0 for p in init_paths)  # type: ignore[union-attr]
    others = sorted(set(writers) - accounted - {"__init__"})
    ctx.ob("R10.2", "_parts_decoded written only as 0 in __init__ and += 1 in next_event", init_ok and not others and not stray,
           f"{[(k, norm(w)) for k, ws in sorted(writers.items()) for w in ws]}; methods that build part events (with the helpers expanded into them): {sorted(accounted)}" + (f"; {'; '.join(stray[:2])}" if stray else ""), ne, ne.node, "_parts_decoded writers")


# ---------------------------------------------------------------------
# R10.3


def _mentions_term(e: ast.AST, text: str, skip_len: bool = True) -> bool:
    """does expression e contain the term (by text) outside a len(...) call?"""
    if norm(e) == text:
        return True
    if skip_len and isinstance(e, ast.Call) and dotted(e.func) in ("len", "isinstance", "bool"):
        return False
    return any(_mentions_term(ch, text, skip_len) for ch in ast.iter_child_nodes(e))


class _Subst(ast.NodeTransformer):
    """replaces local names and self attributes by the values a path left in them."""

    def __init__(self, env: dict[str, ast.AST], selfname: str):
        self.env = env
        self.selfname = selfname

    def visit_Name(self, n: ast.Name):  # noqa: N802
        if n.id in self.env:
            return ast.parse(ast.unparse(self.env[n.id]), mode="eval").body
        return n

    def visit_Attribute(self, n: ast.Attribute):  # noqa: N802
        if isinstance(n.value, ast.Name) and f"{n.value.id}.{n.attr}" in self.env:  # self.attr, or a field of a local record
            return ast.parse(ast.unparse(self.env[f"{n.value.id}.{n.attr}"]), mode="eval").body
        self.generic_visit(n)
        d = dotted(n.value)  # the object the (substituted) base denotes may carry the field under its own name
        if d and f"{d}.{n.attr}" in self.env:
            return ast.parse(ast.unparse(self.env[f"{d}.{n.attr}"]), mode="eval").body
        return n


def _key_expr(key: str) -> ast.AST | None:
    """the condition a canonical key stands for, as an expression over the terms it was built from."""
    from ._c09_helpers import _LIN_OF_KEY

    f = _LIN_OF_KEY.get(key)
    try:
        if f is not None:
            txt = " + ".join(f"({c}) * ({tm})" for tm, c in sorted(f.terms.items())) or "0"
            return ast.parse(f"{txt} + ({f.const}) {'>=' if key.startswith('GE0: ') else '=='} 0", mode="eval").body
        return ast.parse(key, mode="eval").body
    except SyntaxError:
        return None


def _value_after(p: Path, term: str, selfname: str, module: t.Any) -> ast.AST | None:
    """what a term over the state at the start of a round (a local, a field of a record, an element of a state tuple)
    denotes in the state path p leaves behind."""
    try:
        e = ast.parse(term, mode="eval").body
    except SyntaxError:
        return None
    return fold_access(_Subst(p.env, selfname).visit(e), module)


def _atom_after(p: Path, key: str, selfname: str, module: t.Any = None, assume: dict[str, bool] | None = None) -> bool | None:
    """truth value that condition `key` (over the state at the start of a round) has in the state path p leaves behind
    (`assume`: truth values of atoms taken for granted, e.g. that the limit is configured)."""
    e = _key_expr(key)
    if e is None:
        return None
    c = canon_atom(fold_access(_Subst(p.env, selfname).visit(e), module))
    if isinstance(c, bool):
        return c
    v = p.val(c[0])
    if v is None and assume is not None:
        v = assume.get(c[0])
    return None if v is None else (v == c[1])


def _r103(ctx: Ctx, mp: ClassInfo) -> None:
    repo = ctx.repo
    pa = mp.methods.get("parse")
    if pa is None:
        raise AnalysisError("MultiPartParser.parse missing")
    ctx.saw(pa)
    LIMIT = "self.max_form_memory_size"
    nf = normalise(repo, pa, _not_dunder)
    sn = nf.selfname or "self"
    sym = Sym(nf, repo=repo)

    def mentions_next_event(e: ast.AST) -> bool:
        return any(isinstance(x, ast.Attribute) and x.attr == "next_event" for x in ast.walk(e))

    def event_generator(call: ast.AST) -> bool:
        if not isinstance(call, ast.Call):
            return False
        f = call.func
        h = None
        if isinstance(f, ast.Attribute) and isinstance(f.value, ast.Name) and f.value.id == sn:
            h = mp.methods.get(f.attr)
        elif isinstance(f, ast.Name):
            h = pa.module.functions.get(f.id)
        return h is not None and any(isinstance(x, (ast.Yield, ast.YieldFrom)) for x in ast.walk(h.node)) and mentions_next_event(h.node)

    # a round = from taking one event to taking the next: the event is the result of a next_event() call, or the target of
    # a loop over something that produces the decoder's events (iter(decoder.next_event, ...), a generator calling it)
    call_starts = [n for n in nf.cfg.nodes if n.kind in ("stmt", "test") and n.ast is not None and any(isinstance(c.func, ast.Attribute) and c.func.attr == "next_event" for c in astq.calls(n.ast))]
    loop_starts = [n for n in nf.cfg.nodes if n.kind == "loop" and isinstance(n.ast, (ast.For, ast.AsyncFor)) and not any(n is c for c in call_starts) and (mentions_next_event(n.ast.iter) or event_generator(n.ast.iter))]
    starts = call_starts + loop_starts
    if not starts:
        raise AnalysisError("MultiPartParser.parse: no call of next_event(), no loop over the decoder's events (slot)")
    start_ids = {n.id for n in starts}
    runs: list[tuple[Path, str]] = []
    for s in starts:
        for p in sym.paths(start=s, stop=lambda n: n.id in start_ids, env0=invariant_env(nf, s)):
            if s.kind == "loop":
                ev = next((e for e in p.events if e.kind == "iter" and e.node is s), None)
            else:
                ev = next((e for e in p.events if e.k is not None and callee_last(e) == "next_event"), None)
            if ev is not None:
                runs.append((p, symname(ev.k)))

    # which event class a path is about: isinstance conditions narrow the set of concrete event classes
    evmod = repo.module("sansio.multipart")
    base = evmod.classes.get("Event")
    universe = {c.name for c in evmod.classes.values() if base is not None and c is not base and any(k.fq == base.fq for k in repo.mro(c)[1:])}
    if not {"Field", "File", "Data"} <= universe:
        raise AnalysisError("sansio.multipart: event classes Field / File / Data not found (slot)")

    def covered(names: list[str]) -> set[str]:
        out = set()
        for u in universe:
            anc = {k.name for k in repo.mro(evmod.classes[u])}
            if any(nm.rsplit(".", 1)[-1] in anc for nm in names):
                out.add(u)
        return out

    import re as _re

    exact_pats = [_re.compile(r"^(?:type\((?P<s>.+?)\)|(?P<s2>.+?)\.__class__) (?:is|==) (?P<c>[\w.]+)$"), _re.compile(r"^(?P<c>[\w.]+) == (?:type\((?P<s>.+?)\)|(?P<s2>.+?)\.__class__)$"),
                  _re.compile(r"^(?:type\((?P<s>.+?)\)|(?P<s2>.+?)\.__class__) in [\(\[\{](?P<c>[\w., ]+)[\)\]\}]$")]

    def possible(p: Path, evs: str) -> set[str]:
        """concrete event classes the event of this round can still have, given the path's isinstance / type() conditions."""
        poss = set(universe)
        for k, v, _ in p.conds:
            c = sym._classes_of(k)
            if c is not None and c[0] == evs:
                cov = covered(c[1])
                poss = (poss & cov) if v else (poss - cov)
                continue
            for pat in exact_pats:
                m = pat.match(k)
                if m and (m.group("s") or m.group("s2")) == evs:
                    exact = {x.strip().rsplit(".", 1)[-1] for x in m.group("c").split(",") if x.strip()} & universe
                    poss = (poss & exact) if v else (poss - exact)
                    break
        return poss

    from ._c09_helpers import _LIN_OF_KEY

    counters: set[str] = set()
    for p, evs in runs:
        dlen = f"len({evs}.data)"
        for k, v, _ in p.conds:
            g = _LIN_OF_KEY.get(k) if k.startswith("GE0: ") else None
            if g is None or LIMIT not in g.terms or dlen not in g.terms:
                continue
            for tm in g.terms:
                if tm not in (LIMIT, dlen) and not tm.startswith("len(") and "\u03a3" not in tm:
                    counters.add(tm)

    # the same accounting kept as a count-down: a budget B that starts at the limit, `len(data) <= B` is the test, B -= len(data)
    budgets: set[str] = set()
    for p, evs in runs:
        dlen = f"len({evs}.data)"
        for k, v, _ in p.conds:
            g = _LIN_OF_KEY.get(k) if k.startswith("GE0: ") else None
            if g is None or LIMIT in g.terms or dlen not in g.terms or len(g.terms) != 2:
                continue
            (tm,) = [x for x in g.terms if x != dlen]
            if g.terms[tm] == -g.terms[dlen] and not tm.startswith("len(") and "\u03a3" not in tm:
                budgets.add(tm)
    budgets -= counters
    CONFIGURED = {f"{LIMIT} is None": False}

    def guarded(conds: set, dlen: Lin) -> bool:
        return any(implies_le(conds, Lin({c: 1}) + dlen, Lin({LIMIT: 1})) for c in counters) or any(implies_le(conds, dlen, Lin({b: 1})) for b in budgets)

    kinds: list[tuple[Path, str, str]] = []
    for p, evs in runs:
        poss = possible(p, evs)
        kind = "file" if poss and poss <= {"File"} else "field" if poss and poss <= {"Field"} else "data" if poss and poss <= {"Data"} else ("field?" if "Field" in poss and not poss & {"Data", "File"} else "other")
        kinds.append((p, evs, kind))
    explicit_field = [p for p, _, k in kinds if k == "field" and p.outcome != "raise"]
    # no explicit test for Field anywhere: the rounds left over once Data and File are excluded are the ones that handle it
    fieldish = explicit_field or [p for p, _, k in kinds if k == "field?" and p.outcome != "raise"]
    filish = [p for p, _, k in kinds if k == "file" and p.outcome != "raise"]

    skip_cache: dict[tuple[str, bool], bool] = {}

    def file_only(k: str, v: bool) -> bool:
        """is the condition one that every File event establishes and every Field event refutes (so that a round that
        meets it is handling the data of a file part)?"""
        if (k, v) not in skip_cache:
            ok = bool(filish) and bool(fieldish)
            for fp in filish:
                if _atom_after(fp, k, sn, pa.module, CONFIGURED) is not v:
                    ok = False
            for fp in fieldish:
                if _atom_after(fp, k, sn, pa.module, CONFIGURED) is not (not v):  # with a limit configured
                    ok = False
            skip_cache[(k, v)] = ok
        return skip_cache[(k, v)]

    def state_atom(k: str, evs: str) -> bool:
        return not k.startswith(("EXC@", "ITER@")) and "\u03a3" not in k and LIMIT not in k

    writes: dict[int, tuple[ast.AST, list[tuple[bool, str]]]] = {}
    bad_keep, bad_field, bad_other, bad_exc = [], [], [], []
    n_guarded = n_exc = 0
    used_skips: set[str] = set()
    for p, evs, kind in kinds:
        data = f"{evs}.data"
        dlen = Lin({f"len({data})": 1})
        for e in p.events:
            if e.kind != "call" or not isinstance(e.call, ast.Call) or (dotted(e.call.func) in ("len", "isinstance", "bool")):
                continue
            vals = list(e.call.args) + [k.value for k in e.call.keywords]
            if not any(_mentions_term(a, data) for a in vals):
                continue
            conds = p.cset(e.ncond)
            if _limit_skipped(conds, LIMIT):
                ok, fact = True, "limit None"
            elif guarded(conds, dlen):
                ok, fact = True, "accumulated size + len(event.data) <= max_form_memory_size guaranteed"
            else:
                skips = [(k, v) for k, v in sorted(conds) if state_atom(k, evs) and file_only(k, v)]
                ok = bool(skips)
                if ok:
                    used_skips.add(f"{'' if skips[0][1] else 'not '}{skips[0][0]}")
                    fact = f"file part (`{'' if skips[0][1] else 'not '}{skips[0][0]}`: established by every File event, refuted by every Field event)"
                else:
                    fact = f"no bound: neither the limit is None, nor a file part is known, nor accumulated size + len(event.data) <= max_form_memory_size (counter candidates {sorted(counters)}) on path {p.describe()[:240]}"
            writes.setdefault(id(e.raw), (e.raw, []))[1].append((ok, fact))
        over_budget = False
        for k, v, _ in p.conds:
            if k.startswith("GE0: "):
                from ._c09_helpers import _known_ge0

                for g in _known_ge0(k, v):
                    if g.terms.get(f"len({data})", 0) > 0 and any(g.terms.get(b, 0) < 0 for b in budgets):
                        over_budget = True
        if exceed_conds(p, LIMIT) or over_budget:
            n_exc += 1
            if not raised_retl(p):
                bad_exc.append(p.describe()[:200])
        if p.outcome == "raise":
            continue
        conds = p.cset()
        for b in sorted(budgets):
            cur = _value_after(p, b, sn, pa.module)
            if cur is not None and norm(cur) == b:
                cur = None
            curl = lin(cur) if cur is not None else Lin({b: 1})
            unchanged = cur is None
            spent = curl is not None and curl.key() == (Lin({b: 1}) - dlen).key()
            if implies_le(conds, dlen, Lin({b: 1})):
                n_guarded += 1
                if not spent:
                    bad_keep.append(f"{p.describe()[:200]}: after the test `{b}` is `{norm(cur) if cur is not None else b}`, not what is left of the budget")
            if any(p is q for q in fieldish):
                if cur is None or norm(cur) != LIMIT:
                    bad_field.append(f"at a Field event the budget `{b}` becomes `{norm(cur) if cur is not None else b}`, not the limit")
            elif kind == "file":
                pass
            elif not (unchanged or spent):
                bad_other.append(f"{p.describe()[:160]}: `{b}` becomes `{norm(cur)}`")
        for c in sorted(counters):
            cur = _value_after(p, c, sn, pa.module)
            if cur is not None and norm(cur) == c:
                cur = None
            curl = lin(cur) if cur is not None else Lin({c: 1})
            unchanged = cur is None or (curl is not None and curl.key() == Lin({c: 1}).key())
            summed = curl is not None and curl.key() == (Lin({c: 1}) + dlen).key()
            is_zero = isinstance(cur, ast.Constant) and cur.value == 0 and not isinstance(cur.value, bool)
            if implies_le(conds, Lin({c: 1}) + dlen, Lin({LIMIT: 1})):
                n_guarded += 1
                if not summed:
                    bad_keep.append(f"{p.describe()[:200]}: after the test `{c}` is `{norm(cur) if cur is not None else c}`, not the accumulated size")
            if any(p is q for q in fieldish):
                if not is_zero:
                    bad_field.append(f"at a Field event `{c}` becomes `{norm(cur) if cur is not None else c}`")
            elif kind == "file":
                pass  # how a file part switches the accounting off is checked where the data is handed on
            elif not (unchanged or summed):
                bad_other.append(f"{p.describe()[:160]}: `{c}` becomes `{norm(cur)}`")
    if not writes:
        raise AnalysisError("MultiPartParser.parse: no place where the data of a Data event is handed on was found in the rounds of the event loop (slot)")
    ctx.floor("R10.3", "writes of event.data", len(writes), 1)
    for sid, (raw, facts) in writes.items():
        ok = all(f[0] for f in facts)
        ctx.ob("R10.3", "the write of field data is bounded by the accumulated field size", ok, f"`{norm(raw)}` on {len(facts)} path(s): " + "; ".join(sorted({f[1] for f in facts if not f[0]})[:2] or sorted({f[1] for f in facts})), pa, raw, f"field write {norm(raw)}")
    if (counters or budgets) and (not fieldish or not filish):
        raise AnalysisError("MultiPartParser.parse: the rounds that handle a Field / a File event were not recognised (slot)")
    ctx.ob("R10.3", "field_size is reset to 0 at every Field and disabled (None) at every File", bool(counters or budgets) and not bad_field and bool(used_skips),
           "; ".join(sorted(set(bad_field))[:3]) or (f"counter {sorted(counters)} / budget {sorted(budgets)}: reset on {len(fieldish)} Field path(s); {len(filish)} File path(s) establish {sorted(used_skips)}, under which alone the size test is skipped" if used_skips else f"counter {sorted(counters)}: no condition set by File events (and cleared by Field events) under which the size test is skipped"), pa, pa.node, "field_size resets")
    ctx.ob("R10.3", "field_size changes only by reset or by the accumulated length of event.data", bool(counters or budgets) and not bad_keep and not bad_other and n_guarded >= 1, "; ".join(sorted(set(bad_keep + bad_other))[:3]) or f"{n_guarded} guarded path(s) keep the counter at the accumulated size; no other change", pa, pa.node, "field_size writers")
    ctx.ob("R10.3", "a comparison with max_form_memory_size taken on its exceeded side raises RequestEntityTooLarge", n_exc >= 1 and not bad_exc, "; ".join(bad_exc[:3]) or f"{n_exc} exceeded path(s), each raises RequestEntityTooLarge", pa, pa.node, "field size test raises")


# ---------------------------------------------------------------------
# R10.4


def _r104(ctx: Ctx, fp: ClassInfo) -> None:
    repo = ctx.repo
    pu = fp.methods.get("_parse_urlencoded")
    if pu is None:
        raise AnalysisError("FormDataParser._parse_urlencoded missing")
    ctx.saw(pu)
    if len(pu.params) < 4:
        raise AnalysisError("_parse_urlencoded: expected (self, stream, mimetype, content_length, options)")
    STREAM, CLEN = pu.params[1], pu.params[3]
    LIMIT = "self.max_form_memory_size"
    nf = normalise(repo, pu, _not_dunder)
    paths = Sym(nf, repo=repo).paths()

    def reads(p: Path) -> list[Ev]:
        return [e for e in p.events if e.kind == "call" and isinstance(e.call, ast.Call) and isinstance(e.call.func, ast.Attribute) and e.call.func.attr in ("read", "readall") and norm(e.call.func.value) == STREAM]

    def unbounded(e: Ev) -> bool:
        a = e.call.args  # type: ignore[union-attr]
        return e.call.func.attr == "readall" or not a or (isinstance(a[0], ast.Constant) and a[0].value in (None, -1)) or (isinstance(a[0], ast.UnaryOp) and isinstance(a[0].op, ast.USub))  # type: ignore[union-attr]

    def reads_after_exceeding(p: Path) -> list[Ev]:
        """reads made when the path already knows that the limit is exceeded (a sized read whose own result is then found
        too long comes before that knowledge: it is how a stream without a declared length is measured)."""
        ex = set(exceed_conds(p, LIMIT))
        return [e for e in reads(p) if any((k, v) in ex for k, v, _ in p.conds[: e.ncond])]

    all_reads = {id(e.raw): e.raw for p in paths for e in reads(p)}
    ctx.floor("R10.4", "reads of the urlencoded body", len(all_reads), 1)
    un_sites = {id(e.raw): e.raw for p in paths for e in reads(p) if unbounded(e)}
    exceeded = [p for p in paths if exceed_conds(p, LIMIT)]
    for sid, raw in un_sites.items():
        bad_a = [p for p in exceeded if not raised_retl(p) or reads_after_exceeding(p)]
        declared = [p for p in exceeded if any(CLEN in k for k, _ in exceed_conds(p, LIMIT))]
        ctx.ob("R10.4", "declared urlencoded length above max_form_memory_size is refused before reading", bool(declared) and not bad_a,
               "; ".join(p.describe()[:200] for p in bad_a[:2]) or (f"{len(declared)} path(s) with `{CLEN}` above the limit, each raises RequestEntityTooLarge before any read" if declared else "no comparison of the declared length with max_form_memory_size"), pu, raw, "urlencoded declared length")
        byp = []
        for p in paths:
            for e in reads(p):
                if e.raw is not raw or not unbounded(e):
                    continue
                conds = p.cset(e.ncond)
                if _limit_skipped(conds, LIMIT):
                    continue
                if any(implies_le(conds, Lin({tm: 1}), Lin({LIMIT: 1})) for tm in (CLEN,)):
                    continue
                byp.append(p)
        # two obligations: with a declared length the bound must hold (a loosened test lands here); without one it cannot
        # (today's tree: the known finding) - kept apart so that the known finding does not hide a regression of the first
        undeclared = [p for p in byp if p.val(f"{CLEN} is None") is True]
        declared_byp = [p for p in byp if p.val(f"{CLEN} is None") is not True]
        ctx.ob("R10.4", "with a declared length, the unbounded stream.read() is reached only when that length is within max_form_memory_size", not declared_byp,
               "every path to stream.read() that knows the declared length has it bounded by the limit" if not declared_byp else "stream.read() is reachable with a declared length that is not bounded by the limit: " + declared_byp[0].describe()[:240], pu, raw, "urlencoded unbounded read with a declared length")
        fact = "every path to stream.read() with a limit configured passes the size comparison" if not undeclared else "stream.read() is reachable with a limit configured and no bound applied: " + undeclared[0].describe()[:240]
        ctx.ob("R10.4", "unbounded stream.read() of the urlencoded body is dominated by a bound whenever a limit is configured", not undeclared, fact, pu, raw, "urlencoded unbounded read when content_length is None")


# ---------------------------------------------------------------------
# R10.5


def _r105(ctx: Ctx) -> None:
    repo = ctx.repo
    chain = [
        ("wrappers.request.Request.make_form_data_parser", "form_data_parser_class", "formparser.FormDataParser.__init__", {"max_form_memory_size": "self.max_form_memory_size", "max_content_length": "self.max_content_length", "max_form_parts": "self.max_form_parts"}),
        ("formparser.parse_form_data", "FormDataParser", "formparser.FormDataParser.__init__", {"max_form_memory_size": "max_form_memory_size", "max_content_length": "max_content_length", "max_form_parts": "max_form_parts"}),
        ("formparser.FormDataParser.parse_from_environ", "get_input_stream", "wsgi.get_input_stream", {"max_content_length": "self.max_content_length"}),
        ("formparser.FormDataParser._parse_multipart", "MultiPartParser", "formparser.MultiPartParser.__init__", {"max_form_memory_size": "self.max_form_memory_size", "max_form_parts": "self.max_form_parts"}),
        ("formparser.MultiPartParser.parse", "MultipartDecoder", "sansio.multipart.MultipartDecoder.__init__", {"max_form_memory_size": "self.max_form_memory_size", "max_parts": "self.max_form_parts"}),
        ("wrappers.request.Request.stream", "get_input_stream", "wsgi.get_input_stream", {"max_content_length": "self.max_content_length"}),
    ]
    nfw = 0
    for fq, callee, sig_fq, kws in chain:
        fi = repo.func(fq)
        ctx.saw(fi)
        sig = repo.func(sig_fq)
        nf = normalise(repo, fi, lambda h: _not_dunder(h) and h.name != "get_content_length")
        paths = Sym(nf, repo=repo).paths(max_paths=20000)
        found: dict[int, list[dict[str, str | None]]] = {}
        raws: dict[int, ast.AST] = {}
        for p in paths:
            for e in p.events:
                if e.kind == "call" and callee in (callee_last(e), callee_last(e, True)) and isinstance(e.call, ast.Call):
                    b = bind_call(e.call, sig, bound=sig.name == "__init__")
                    if b is None:
                        raise AnalysisError(f"{fq}: the arguments of `{norm(e.call)[:80]}` cannot be matched with the parameters of {callee} (slot)")
                    got_ = {k: (norm(v) if v is not None else None) for k, v in b.items()}
                    for k, v in kws.items():
                        if got_.get(k) in (None, "None") and p.val(f"{v} is None") is True:
                            got_[k] = v  # this call is made only when the limit is None: leaving it out passes None
                    found.setdefault(id(e.raw), []).append(got_)
                    raws[id(e.raw)] = e.raw
        if not found:
            ctx.ob("R10.5", f"{fq} calls {callee}", False, "0 call(s) found", fi, fi.node, f"{fq} -> {callee}")
            continue
        for k, v in kws.items():
            nfw += 1
            gots = sorted({str(b.get(k)) for bs in found.values() for b in bs})
            ok = gots == [v]
            ctx.ob("R10.5", f"{fi.qualname} forwards {k} to {callee}", ok, f"{k}={gots} (expected {v}) at {len(found)} call site(s)", fi, next(iter(raws.values())), f"{fq} -> {callee}({k})")
    stores = [
        ("formparser.FormDataParser.__init__", ["max_form_memory_size", "max_content_length", "max_form_parts"]),
        ("formparser.MultiPartParser.__init__", ["max_form_memory_size", "max_form_parts"]),
        ("sansio.multipart.MultipartDecoder.__init__", ["max_form_memory_size", "max_parts"]),
    ]
    for fq, names in stores:
        fi = repo.func(fq)
        ctx.saw(fi)
        nf = normalise(repo, fi, _not_dunder)
        paths = [p for p in Sym(nf, repo=repo).paths() if p.outcome in ("return", "fall")]
        for nm in names:
            nfw += 1
            got = sorted({norm(p.env[f"self.{nm}"]) if f"self.{nm}" in p.env else "<not stored>" for p in paths})
            ctx.ob("R10.5", f"{fi.qualname} stores {nm}", got == [nm] and nm in fi.params, f"self.{nm} = {got}", fi, fi.node, f"{fq} stores {nm}")
    ctx.floor("R10.5", "forwarding edges", nfw, 18)
    req = repo.cls("wrappers.request.Request")
    defaults = {k: norm(req.attrs[k]) if k in req.attrs else None for k in ("max_content_length", "max_form_memory_size", "max_form_parts")}
    ctx.ob("R10.5", "Request defaults are None / 500000 / 1000", defaults == {"max_content_length": "None", "max_form_memory_size": "500000", "max_form_parts": "1000"}, f"{defaults}", req.fq, None, "request defaults")


# ---------------------------------------------------------------------
# R10.6: non-interference, decided on paths: a configured limit may reach only guards and forwarding sinks


_LIMIT_RE = re.compile(r"(?<![\w.])(?:[A-Za-z_][\w]*\.)?(?:" + "|".join(sorted(LIMIT_ATTRS)) + r")\b")
TRANSPARENT = {"len", "min", "max", "abs", "int", "bool", "isinstance", "dict", "tuple", "list", "cast", "partial", "type", "repr", "str", "sorted", "set", "frozenset"}


def _is_limit_term(e: ast.AST) -> bool:
    return (isinstance(e, ast.Attribute) and e.attr in LIMIT_ATTRS) or (isinstance(e, ast.Name) and e.id in LIMIT_ATTRS)


def _has_limit(e: ast.AST | None) -> bool:
    """does the value depend on a limit through operators / transparent functions?  The result of any other call is a
    new value: what that call does with a limit is judged where the call happens."""
    if e is None:
        return False
    if _is_limit_term(e):
        return True
    if isinstance(e, ast.Call):
        last = (dotted(e.func) or "").rsplit(".", 1)[-1]
        if last not in TRANSPARENT:
            return False
    if isinstance(e, (ast.Lambda, ast.ListComp, ast.SetComp, ast.DictComp, ast.GeneratorExp)):
        return any(_is_limit_term(x) for x in ast.walk(e))
    return any(_has_limit(ch) for ch in ast.iter_child_nodes(e))


# methods of the io / socket protocols whose argument is the largest amount handed back: whatever the receiver is, the
# argument decides how much of the input the caller gets to see
SIZED_READS = {"read", "read1", "readline", "readlines", "recv", "peek", "readinto", "readexactly", "readuntil"}


def _in_loop(node: ast.AST | None) -> bool:
    while node is not None:
        if isinstance(node, (ast.For, ast.AsyncFor, ast.While, ast.ListComp, ast.SetComp, ast.DictComp, ast.GeneratorExp)) and getattr(node, "_inlined_from", None) is None:
            return True  # (the one-round `while` that stands for an expanded helper with early returns is not a loop)
        if isinstance(node, (ast.FunctionDef, ast.AsyncFunctionDef, ast.Lambda)):
            return False
        node = astq.parent(node)
    return False


def _sized_read(p: Path, e: Ev, size: ast.AST) -> tuple[bool | None, str]:
    """`r = x.read(n)` with n computed from a limit.  It is a guard only when every way on that does not end in
    RequestEntityTooLarge knows that the read came back short (len(r) < n: everything there was has been seen, the
    result is what an unlimited read gives); a path that goes on without that knowledge has silently dropped what
    lay beyond n bytes - the result depends on the limit.  None = cannot tell (the remainder may be looked at by a
    later read, or the read is one round of a loop)."""
    call = e.call
    assert isinstance(call, ast.Call) and isinstance(call.func, ast.Attribute)
    what = f"`{norm(call)[:70]}`"
    if raised_retl(p):
        return True, "the size of a read whose overflow ends in RequestEntityTooLarge"
    S = lin(size)
    if S is not None and e.k is not None and implies_le(p.cset(), Lin({f"len({symname(e.k)})": 1}, 1), S):
        return True, "the size of a read that is known to have come back short wherever parsing goes on"
    recv = norm(call.func.value)
    later = [x for x in p.events if x is not e and p.events.index(x) > p.events.index(e) and x.kind == "call" and isinstance(x.call, ast.Call) and isinstance(x.call.func, ast.Attribute) and x.call.func.attr in SIZED_READS | {"readall"} and norm(x.call.func.value) == recv]
    if later:
        return None, f"{what} is followed by another read of the same object on the path: whether the remainder is accounted for is not decided"
    if _in_loop(e.raw):
        return None, f"{what} is one round of a loop: whether all rounds together see the whole input is not decided"
    return False, f"NOT a pure guard: {what} hands back at most that many bytes and the path goes on ({p.outcome}) without knowing that the read came back short - what lay beyond is dropped, the result differs from the unlimited one"


def _r106(ctx: Ctx, dec: ClassInfo, fp: ClassInfo, mp: ClassInfo) -> None:
    repo = ctx.repo
    want = both(_not_dunder, lambda h: h.name != "get_content_length", mentions(LIMIT_ATTRS | {RETL}))
    scope: list[NFunc] = []
    for cls in (dec, fp, mp):
        scope.extend(nf for _, nf in sorted(roots_of(repo, cls, want).items()))
    for fq in ("formparser.parse_form_data", "wsgi.get_input_stream", "wrappers.request.Request.make_form_data_parser", "wrappers.request.Request.stream"):
        scope.append(normalise(repo, repo.func(fq), want))
    absorbed = {id(h) for nf in scope for h in nf.inlined}
    for modname in ("werkzeug.formparser", "werkzeug.sansio.multipart"):
        for fi in repo.module(modname).functions.values():
            if id(fi) not in absorbed and not any(nf.orig is fi for nf in scope) and mentions(LIMIT_ATTRS)(fi):
                scope.append(normalise(repo, fi, want))
    signatures = {"MultipartDecoder": repo.func("sansio.multipart.MultipartDecoder.__init__"), "FormDataParser": repo.func("formparser.FormDataParser.__init__"),
                  "MultiPartParser": repo.func("formparser.MultiPartParser.__init__"), "get_input_stream": repo.func("wsgi.get_input_stream"), "parse_form_data": repo.func("formparser.parse_form_data"),
                  "form_data_parser_class": repo.func("formparser.FormDataParser.__init__")}
    nuse = 0
    for nf in scope:
        fi = nf.orig
        if not any(_is_limit_term(x) or (isinstance(x, ast.Constant) and x.value in LIMIT_ATTRS) for x in ast.walk(nf.node)):
            continue
        sym = Sym(nf, repo=repo)
        paths = sym.paths(max_paths=20000)
        # state carried around a loop is unknown to a path that starts at the entry: one more set of paths starts at each
        # loop head with everything the loop may change left open
        for h in nf.cfg.nodes:
            if h.kind == "loop" or (h.kind == "join" and isinstance(h.ast, ast.While) and getattr(h.ast, "_inlined_from", None) is None):
                paths += sym.paths(start=h, stop=lambda n, h=h: n is h, env0=invariant_env(nf, h), max_paths=20000)
        # site -> (node for the location, description of the use, verdicts over all paths)
        sites: dict[tuple[int, str], tuple[ast.AST, str, list[tuple[bool, str]]]] = {}
        undecided: list[tuple[FuncInfo, ast.AST, str]] = []

        def note(node: ast.AST, what: str, ok: bool, kind: str) -> None:
            sites.setdefault((id(node), what), (node, what, []))[2].append((ok, kind))

        for p in paths:
            limits_seen: set[str] = set()
            for k, v, n in p.conds:
                if not _LIMIT_RE.search(k):
                    continue
                src = n.ast if n.ast is not None else fi.node
                terms = sorted(set(m.group(0) for m in _LIMIT_RE.finditer(k)))
                if k.endswith(" is None") and k[: -len(" is None")] in terms:
                    note(src, f"`{terms[0]}`", True, "an is-None test")
                elif k.startswith("GE0: "):
                    limits_seen.update(terms)
                    note(src, f"`{', '.join(terms)}`", True, "a guard comparison")
                else:
                    note(src, f"`{', '.join(terms)}`", False, f"NOT a pure guard: the condition `{k}` decides by truth value / equality of a limit")
            for lt in sorted(limits_seen):
                ex = exceed_conds(p, lt)
                if ex and not raised_retl(p):
                    node = next((n.ast for k, v, n in p.conds if (k, v) in ex and n.ast is not None), fi.node)
                    note(node, f"`{lt}`", False, f"NOT a pure guard: on the exceeded side of `{ex[0][0]}` the path ends with {p.outcome}, not RequestEntityTooLarge")
            for e in p.events:
                if e.kind in ("call", "attempt") and isinstance(e.call, ast.Call):
                    call = e.call
                    vals = [(None, a) for a in call.args] + [(kw.arg, kw.value) for kw in call.keywords]
                    if isinstance(call.func, ast.Attribute) and _has_limit(call.func.value) and not _is_limit_term(call.func.value):
                        # `data[:limit].decode()`: the object the method works on was cut / computed with the limit
                        note(e.raw, f"`{norm(call.func.value)[:60]}`", False, f"NOT a pure guard: `{norm(call)[:70]}` works on a value computed from the limit")
                    if not any(_has_limit(v_) for _, v_ in vals):
                        continue
                    last = callee_last(e, True) or callee_last(e) or "?"
                    if last in TRANSPARENT:
                        continue  # the value goes on into whatever uses the result
                    f_ = call.func
                    if isinstance(f_, ast.Attribute) and last in SIZED_READS:
                        # `x.read(n)` hands back at most n bytes whatever x is: the limit decides how much of the input is seen
                        for _, v_ in vals:
                            if _has_limit(v_):
                                ok_, why = _sized_read(p, e, v_)
                                if ok_ is None:
                                    undecided.append((fi, e.raw, why))
                                else:
                                    note(e.raw, f"`{norm(v_)}`", ok_, why)
                        continue
                    if isinstance(f_, ast.Attribute) and not (isinstance(f_.value, ast.Name) and f_.value.id == (nf.selfname or "self")) and last not in signatures and not last.endswith("LimitedStream") and isinstance(e.raw, ast.Call) and isinstance(e.raw.func, ast.Attribute) and isinstance(e.raw.func.value, ast.Name) and e.raw.func.value.id not in nf.object_class and e.raw.func.value.id in Sym(nf)._locals():
                        raise AnalysisError(f"{fi.fq}: a limit is passed to `{norm(e.raw)[:70]}`, a method of a local object whose class is not known: what it does with it cannot be decided")
                    sig = signatures.get(last) or signatures.get(callee_last(e) or "")
                    bound = bind_call(call, sig, bound=sig.name == "__init__") if sig is not None else None
                    for i, (kwname, v_) in enumerate(vals):
                        if not _has_limit(v_):
                            continue
                        pname = kwname
                        if pname is None and bound is not None:
                            pname = next((k_ for k_, bv in bound.items() if bv is v_), None)
                        if last.endswith("LimitedStream"):
                            is_lim = (kwname == "limit") or (kwname is None and i == 1)
                            ism = astq.arg_or_kw(call, 2, "is_max")
                            ok = is_lim and _is_limit_term(v_) and p.truth(ism) is True
                            note(e.raw, f"`{norm(v_)}`", ok, "the limit of a maximum-limited stream" if ok else f"NOT a pure guard: passed to `{norm(call)[:70]}`")
                        elif pname in LIMIT_ATTRS and _is_limit_term(v_):
                            note(e.raw, f"`{norm(v_)}`", True, "a forwarding edge")
                        else:
                            note(e.raw, f"`{norm(v_)}`", False, f"NOT a pure guard: passed to `{norm(call)[:70]}`")
                elif e.kind == "iter" and _has_limit(e.call):
                    note(e.raw, f"`{norm(e.call)[:60]}`", False, f"NOT a pure guard: the loop runs over `{norm(e.call)[:70]}`, a value computed from the limit")
                elif e.kind == "del" and isinstance(e.call, ast.Delete) and any(_has_limit(x) for x in e.call.targets):
                    note(e.raw, f"`{norm(e.call)[:60]}`", False, f"NOT a pure guard: `{norm(e.call)[:70]}` cuts a value at the limit")
                elif e.kind in ("store", "aug") and hasattr(e.call, "value") and _has_limit(e.call.value):
                    tg = e.call.targets[0] if isinstance(e.call, ast.Assign) else e.call.target  # type: ignore[union-attr]
                    rec = isinstance(tg, ast.Attribute) and isinstance(e.raw, (ast.Assign, ast.AnnAssign, ast.AugAssign)) and isinstance(tg.value, (ast.Name, ast.Call)) and e.kind == "store" and _is_limit_term(e.call.value)
                    # options["max_x"] = limit on a local dict of keyword arguments: judged where the dict is passed on
                    kwd = isinstance(tg, ast.Subscript) and isinstance(tg.slice, ast.Constant) and tg.slice.value in LIMIT_ATTRS and isinstance(tg.value, ast.Dict) and e.kind == "store" and _is_limit_term(e.call.value)
                    note(e.raw, f"`{norm(e.call.value)}`", bool(rec or kwd), ("kept in a record of the function (read back only by guards)" if rec else "an entry of a keyword dictionary (a forwarding edge when it is passed on)") if (rec or kwd) else f"NOT a pure guard: stored by `{norm(e.raw)[:70]}`")
            if p.outcome in ("return", "fall"):
                for key, v_ in p.env.items():
                    if "." in key and key.split(".", 1)[0] == (nf.selfname or "self") and _has_limit(v_):
                        attr = key.split(".", 1)[1]
                        ok = attr in LIMIT_ATTRS and _is_limit_term(v_)
                        note(fi.node, f"`{norm(v_)}` in {key}", ok, "a forwarding edge" if ok else f"NOT a pure guard: left in `{key}`")
                if p.outcome == "return" and _has_limit(p.value):
                    vv = p.value
                    ok = isinstance(vv, ast.Call) and (callee := (dotted(vv.func) or "").rsplit(".", 1)[-1]) and (callee in signatures or callee.endswith("LimitedStream") or callee[:1].isupper()) and not any(_has_limit(a) and not isinstance(a, (ast.Name, ast.Attribute)) for a in vv.args)
                    if not ok and isinstance(vv, ast.Call) and isinstance(vv.func, ast.Attribute) and isinstance(vv.func.value, ast.Call):
                        ok = True  # a call on a freshly constructed object: the constructor event was classified
                    if not ok:
                        note(p.end.ast if p.end is not None and p.end.ast is not None else fi.node, f"`{norm(vv)[:60]}`", False, "NOT a pure guard: a limit is part of the returned value")
        decided_bad = {nid for (nid, _), (_, _, verdicts) in sites.items() if not all(v[0] for v in verdicts)}
        for ufi, raw, why in undecided:
            if id(raw) not in decided_bad:
                raise AnalysisError(f"{ufi.fq}: a limit is the size of the read `{norm(raw)[:70]}`: {why}")
        for (nid, what), (node, _, verdicts) in sites.items():
            nuse += 1
            ok = all(v[0] for v in verdicts)
            kinds = sorted({v[1] for v in verdicts if not v[0]}) or sorted({v[1] for v in verdicts})
            st = node
            while st is not None and not isinstance(st, ast.stmt):
                st = astq.parent(st)
            ctx.ob("R10.6", f"{fi.qualname}: use of {what} is {kinds[0]}", ok, f"in `{norm(st if st is not None else node)[:90]}` on {len(verdicts)} path(s)" + (f"; also: {kinds[1:]}" if len(kinds) > 1 else ""), fi, node, f"{fi.qualname} use {what} in {norm(node)[:60]}")
    ctx.floor("R10.6", "uses of limits", nuse, 20)


# ---------------------------------------------------------------------
# R10.7: the stream class behind the streaming maximum.  get_input_stream (R10.4) only chooses LimitedStream(stream,
# max_content_length, is_max=True); that no more than the maximum is taken from the server's stream is a property of
# LimitedStream itself.  C09 decides it on the paths of readinto - the clauses that C10 needs are taken from there.


class _EnoughSeen(Exception):
    pass


# (rule of C09, construct) -> taken over; construct None = every obligation of that rule
_SHARED_09: dict[str, set[str] | None] = {"R9.1": {"stream users"}, "R9.2": None, "R9.3": {"_pos writers", "_pos increment source"}, "R9.5": {"on_exhausted"}}
_NEEDED_09 = {"stream users", "exhausted branch", "_pos writers", "_pos increment source", "on_exhausted"}
_AFTER_09 = {"R9.6", "R9.7"}  # clauses of C09 about other functions (readall, get_input_stream): not run a second time


def _size_not_understood(fact: str) -> bool:
    """C09 reports a size it cannot bound as unbounded; a size that is no integer linear expression (nor a min() of such) is
    one the path analysis has no opinion about: not a violation, a give-up."""
    sizes = re.findall(r"size `(.+?)` is not bounded by limit", fact) + re.findall(r"`(min\(.+?\))`: no operand is bounded", fact) + re.findall(r"fresh buffer of `(.+?)` bytes \(<= remaining: False\)", fact)
    for txt in sizes:
        try:
            e = ast.parse(txt, mode="eval").body
        except SyntaxError:
            return True
        parts = e.args if isinstance(e, ast.Call) and dotted(e.func) == "min" and not e.keywords else [e]
        if not all(_plain_sum(x) for x in parts):
            return True
    return False


def _plain_sum(e: ast.AST) -> bool:
    """sums / differences / constant multiples of names, attributes, integer constants and len() of such: the expressions an
    integer linear atom speaks about with nothing left opaque."""
    if isinstance(e, ast.Constant):
        return isinstance(e.value, int) and not isinstance(e.value, bool)
    if isinstance(e, ast.Name) or (isinstance(e, ast.Attribute) and dotted(e) is not None):
        return True
    if isinstance(e, ast.UnaryOp) and isinstance(e.op, (ast.USub, ast.UAdd)):
        return _plain_sum(e.operand)
    if isinstance(e, ast.BinOp) and isinstance(e.op, (ast.Add, ast.Sub)):
        return _plain_sum(e.left) and _plain_sum(e.right)
    if isinstance(e, ast.BinOp) and isinstance(e.op, ast.Mult):
        return (isinstance(e.left, ast.Constant) and _plain_sum(e.left) and _plain_sum(e.right)) or (isinstance(e.right, ast.Constant) and _plain_sum(e.right) and _plain_sum(e.left))
    if isinstance(e, ast.Call) and dotted(e.func) == "len" and len(e.args) == 1 and not e.keywords:
        return isinstance(e.args[0], ast.Name) or (isinstance(e.args[0], ast.Attribute) and dotted(e.args[0]) is not None)
    return False


class _SharedCtx:
    """what C09's run() sees instead of the Ctx: obligations that C10 shares are recorded under C10's rule id, the others
    are dropped; the run is ended when it leaves LimitedStream.readinto and the two hooks."""

    def __init__(self, ctx: Ctx, rule: str):
        self.ctx, self.rid, self.repo = ctx, rule, ctx.repo
        self.pid, self.tier = ctx.pid, ctx.tier
        self.taken: list[str] = []

    def rule(self, rid: str, text: str) -> None:
        pass

    def note(self, msg: str) -> None:
        pass

    def error(self, msg: str) -> None:
        self.ctx.error(msg)

    def saw(self, *fis: FuncInfo) -> None:
        self.ctx.saw(*[f for f in fis if f.cls is not None and f.cls.name.endswith("LimitedStream")])

    def floor(self, rule: str, what: str, count: int, floor: int) -> None:
        if rule in _AFTER_09:
            raise _EnoughSeen()
        if rule in _SHARED_09 and _SHARED_09[rule] is None:
            self.ctx.floor(self.rid, f"LimitedStream: {what}", count, floor)

    def ob(self, rule: str, instance: str, ok: bool, fact: str, where: t.Any = None, node: ast.AST | None = None, construct: t.Any = None) -> bool:
        if rule in _AFTER_09:
            raise _EnoughSeen()
        cons = norm(construct) if isinstance(construct, ast.AST) else (construct if construct is not None else instance)
        if rule not in _SHARED_09 or (_SHARED_09[rule] is not None and cons not in _SHARED_09[rule]):  # type: ignore[operator]
            return bool(ok)
        if not ok and ("unrecognised" in fact or _size_not_understood(fact)):
            raise AnalysisError(f"LimitedStream.readinto: {fact[:200]} - whether the read is bounded is not decided")
        self.taken.append(cons)
        return self.ctx.ob(self.rid, f"LimitedStream: {instance}", ok, f"{fact} (C09-{rule})", where, node, construct)


def _r107(ctx: Ctx) -> None:
    view = _SharedCtx(ctx, "R10.7")
    try:
        _c09.run(view)  # type: ignore[arg-type]
    except _EnoughSeen:
        pass
    except AnalysisError:
        if not (_NEEDED_09 <= set(view.taken)):
            raise  # a slot of readinto / the hooks could not be filled: nothing is known about the bound
    missing = sorted(_NEEDED_09 - set(view.taken))
    sites = [c for c in view.taken if c.startswith("bounded underlying ")]
    if missing or not sites:
        raise AnalysisError(f"LimitedStream: the shared analysis (C09) did not deliver {missing or 'any underlying call site'} (slot)")
