"""C10 - configured form limits are enforced and are pure guards (structural clauses).

Guards are read through canonical atoms with copy propagation of local aliases
(wzsa/guards.py); a size check extracted into a one-level helper method is
followed.
"""

from __future__ import annotations

import ast

from .. import astq
from ..cfg import CFG, Node, cfg_of
from ..dataflow import ReachingDefs
from ..guards import Aliases, canon
from ..loader import AnalysisError, FuncInfo, dotted, norm, walk_no_nested
from ..report import Ctx
from .c09 import input_stream_rule

LEVEL_TEXT = (
    "Static decision of structural clauses of C10 on /repo's current source: (R10.1) the only statement that grows the "
    "multipart decoder's buffer is reachable only past the false edge of `len(buffer)+len(data) > max_form_memory_size` "
    "(or with the limit None), whose true edge raises RequestEntityTooLarge; (R10.2) every path from the construction of "
    "a Field/File event to the function's exit passes the part counter's increment and the `> max_parts` test; (R10.3) "
    "the write of field data is reachable, within the Data branch, only past the accumulated-size test (inline or in a "
    "one-level helper), the size is reset per Field and disabled per File; (R10.4) unbounded reads of the urlencoded body "
    "are dominated by a bound, and get_input_stream's decision table holds (shared with C09-R9.6); (R10.5) each of the "
    "three limits is forwarded, by keyword, through every constructor of the chain and stored in the attribute the guards "
    "read; request-level defaults are the documented ones; (R10.6) every use of a limit value or size counter is a guard "
    "comparison whose only effect is raising RequestEntityTooLarge, an is-None test, a forwarding edge, a local alias used "
    "only in such ways, the counter's own update or the limit of a maximum-limited stream - non-interference, hence "
    "'identical result when no guard fires'. It decides these clauses on all paths; memory held inside the stdlib is not "
    "modelled."
)
TRUSTED = ["CPython ast", "bytearray.extend(data) grows the buffer by len(data)"]
ASSUMPTIONS = ["SpooledTemporaryFile and parse_qsl internals are not followed", "limits are ints or None"]

LIMIT_ATTRS = {"max_form_memory_size", "max_form_parts", "max_parts", "max_content_length"}
COUNTERS = {"field_size", "_parts_decoded"}


class F:
    """a function with its CFG, reaching definitions and alias expander."""

    def __init__(self, fi: FuncInfo):
        self.fi = fi
        self.cfg = cfg_of(fi)
        self.rd = ReachingDefs(self.cfg, fi.params)
        self.al = Aliases(self.cfg, self.rd)

    def tests(self):
        return [t for t in self.cfg.tests() if t.kind == "test"]

    def exp(self, t: Node) -> ast.AST:
        return self.al.expand(t.ast, t)


def _is_limit(e: ast.AST, names: set[str]) -> bool:
    return (isinstance(e, ast.Attribute) and e.attr in names) or (isinstance(e, ast.Name) and e.id in names)


def _cmp_limit(e: ast.AST, limit_names: set[str]):
    """(bounded expression, strict?) when e is `bounded >(=) limit` / `limit <(=) bounded` (possibly under `not`: then the
    polarity is flipped and reported as third element)."""
    pos = True
    while isinstance(e, ast.UnaryOp) and isinstance(e.op, ast.Not):
        e = e.operand
        pos = not pos
    cp = astq.cmp_parts(e)
    if not cp:
        return None
    a, op, b = cp
    if isinstance(op, (ast.Gt, ast.GtE)) and _is_limit(b, limit_names):
        return a, pos
    if isinstance(op, (ast.Lt, ast.LtE)) and _is_limit(a, limit_names):
        return b, pos
    # `bounded <= limit` under F / not
    if isinstance(op, (ast.LtE, ast.Lt)) and _is_limit(b, limit_names):
        return a, not pos
    if isinstance(op, (ast.GtE, ast.Gt)) and _is_limit(a, limit_names):
        return b, not pos
    return None


def _none_test(e: ast.AST, names: set[str]):
    """(is the atom `X is None`?, polarity) for X a limit"""
    k, p = canon(e)
    for nm in names:
        for base in (f"self.{nm} is None", f"{nm} is None"):
            if k == base:
                return p
    return None


def _exceeds_edge(f: F, t: Node, limit_names: set[str]):
    """for a test comparing something with a limit: (bounded expr, label of the edge on which the bound is exceeded)."""
    r = _cmp_limit(f.exp(t), limit_names)
    if r is None:
        return None
    bounded, pos = r
    return bounded, ("T" if pos else "F")


def _raises_retl(cfg: CFG, t: Node, label: str) -> bool:
    succ = cfg.succ(t, label)
    return bool(succ) and all(isinstance(s.ast, ast.Raise) and astq.raised_name(s.ast) == "RequestEntityTooLarge" for s in succ)


def _skip_edges(f: F, limit_names: set[str], extra_none: tuple[str, ...] = ()) -> list[tuple[Node, str]]:
    """edges taken when the limit (or a named counter) is None: the bound does not apply there."""
    out = []
    for t in f.tests():
        e = f.exp(t)
        p = _none_test(e, limit_names)
        if p is not None:
            out.append((t, "T" if p else "F"))
            continue
        k, pp = canon(e)
        for nm in extra_none:
            if k == f"{nm} is None":
                out.append((t, "T" if pp else "F"))
    return out


def run(ctx: Ctx) -> None:
    repo = ctx.repo
    for rid, text in {
        "R10.1": "buffer growth in MultipartDecoder is reachable only past the not-exceeded edge of the size test (or limit None); the exceeded edge raises RequestEntityTooLarge; nothing else grows the buffer",
        "R10.2": "every path from constructing a Field/File event to the exit of next_event passes `_parts_decoded += 1` and the `> max_parts` test",
        "R10.3": "in MultiPartParser.parse the write of event.data is reachable in the Data branch only past the accumulated field-size test (or limit None / file part); field_size reset at Field, None at File",
        "R10.4": "urlencoded body: an unbounded stream.read() is dominated by a size bound; get_input_stream decision table (declared length, streamed maximum)",
        "R10.5": "each limit is forwarded by keyword through the whole constructor chain and stored in the attribute the guards read; Request defaults 500000 / 1000 / None",
        "R10.6": "every use of a limit value or size counter is a pure guard, a forwarding edge, a local alias used only so, the counter's update, or the limit of LimitedStream(is_max=True)",
    }.items():
        ctx.rule(rid, text)

    dec = repo.cls("sansio.multipart.MultipartDecoder")

    # ---------------- R10.1 -------------------------------------------
    growth = []
    for name, fi in dec.methods.items():
        for n in walk_no_nested(fi.node):
            if isinstance(n, ast.Call) and isinstance(n.func, ast.Attribute) and astq.is_self_attr(n.func.value, "buffer") and n.func.attr in ("extend", "append", "insert", "__iadd__"):
                growth.append((fi, n))
            if isinstance(n, ast.AugAssign) and astq.is_self_attr(n.target, "buffer"):
                growth.append((fi, n))
            if isinstance(n, ast.Assign) and any(astq.is_self_attr(t_, "buffer") for t_ in n.targets) and name != "__init__":
                growth.append((fi, n))
            if isinstance(n, ast.Assign) and any(isinstance(t_, ast.Subscript) and astq.is_self_attr(t_.value, "buffer") for t_ in n.targets):
                growth.append((fi, n))
    ctx.floor("R10.1", "buffer growth sites", len(growth), 1)
    for fi, g in growth:
        ctx.saw(fi)
        f = F(fi)
        gn = f.cfg.node_of(g)
        cmps = [(t, _exceeds_edge(f, t, {"max_form_memory_size"})) for t in f.tests()]
        cmps = [(t, r) for t, r in cmps if r is not None]
        ok = False
        fact = "no size comparison against max_form_memory_size in this function"
        if len(cmps) == 1:
            t, (bounded, exc_label) = cmps[0]
            ok_label = "F" if exc_label == "T" else "T"
            shape = isinstance(bounded, ast.BinOp) and isinstance(bounded.op, ast.Add) and {norm(bounded.left), norm(bounded.right)} == {"len(self.buffer)", "len(data)"}
            avoid = [(t, ok_label)] + _skip_edges(f, {"max_form_memory_size"})
            bypass = gn.id in f.cfg.reach(avoid_edges=avoid)
            raises = _raises_retl(f.cfg, t, exc_label)
            arg_ok = isinstance(g, ast.Call) and g.func.attr == "extend" and len(g.args) == 1 and astq.is_name(g.args[0], "data")  # type: ignore[attr-defined]
            ok = shape and not bypass and raises and arg_ok
            fact = f"bounded quantity `{norm(bounded)}` (len(buffer)+len(data): {shape}); growth reachable without passing the test: {bypass}; exceeded edge raises RequestEntityTooLarge: {raises}; grows by exactly `data`: {arg_ok}"
            if bypass:
                fact += " via " + f.cfg.fmt_path(f.cfg.path(f.cfg.entry, gn, avoid_edges=avoid) or [])
        ctx.ob("R10.1", f"{fi.qualname}: buffer growth is bounded", ok, f"`{norm(g)}`: {fact}", fi, g, f"growth {norm(g)}")
    outside = []
    for fi in repo.all_functions():
        if fi.cls is dec or fi.module.name not in ("werkzeug.formparser", "werkzeug.sansio.multipart"):
            continue
        for n in walk_no_nested(fi.node):
            if isinstance(n, ast.Call) and isinstance(n.func, ast.Attribute) and isinstance(n.func.value, ast.Attribute) and n.func.value.attr == "buffer" and n.func.attr in ("extend", "append"):
                outside.append((fi, n))
    ctx.ob("R10.1", "no code outside the decoder grows its buffer", not outside, f"{[x.fq for x, _ in outside]}", dec.fq, None, "buffer writers outside")

    # ---------------- R10.2 -------------------------------------------
    ne = dec.methods.get("next_event")
    if ne is None:
        raise AnalysisError("MultipartDecoder.next_event missing")
    ctx.saw(ne)
    f = F(ne)
    cfg = f.cfg
    cons = [c for c in astq.calls(ne.node) if dotted(c.func) in ("Field", "File")]
    ctx.floor("R10.2", "Field/File constructions", len(cons), 2)
    incs = [n for n in cfg.nodes if isinstance(n.ast, ast.AugAssign) and astq.is_self_attr(n.ast.target, "_parts_decoded") and isinstance(n.ast.op, ast.Add) and norm(n.ast.value) == "1"]
    pt = [(t, _exceeds_edge(f, t, {"max_parts"})) for t in f.tests()]
    pt = [(t, r) for t, r in pt if r is not None and norm(r[0]) == "self._parts_decoded"]
    skips = _skip_edges(f, {"max_parts"})
    for c in cons:
        cn = cfg.node_of(c)
        ok = False
        fact = f"increments: {len(incs)}, tests: {len(pt)}"
        if len(incs) == 1 and len(pt) == 1:
            t, (_, exc_label) = pt[0]
            passes_inc = cfg.all_paths_pass(cn, [cfg.exit], incs)
            r = cfg.reach(incs[0], avoid_nodes=[t], avoid_edges=skips)
            passes_test = cfg.exit.id not in r
            raises = _raises_retl(cfg, t, exc_label)
            ok = passes_inc and passes_test and raises
            fact = f"every path to the exit passes the increment: {passes_inc}; then the `{norm(t.ast)}` test (unless the limit is None): {passes_test}; its exceeded edge raises: {raises}"
        ctx.ob("R10.2", f"`{norm(c.func)}(...)` event is counted and bounded", ok, fact, ne, c, f"part event {norm(c.func)}")
    pd_writes = _attr_writes(dec, "_parts_decoded")
    ctx.ob("R10.2", "_parts_decoded written only as 0 in __init__ and += 1 in next_event", sorted((x.name, norm(n)) for n, x in pd_writes) == [("__init__", "self._parts_decoded = 0"), ("next_event", "self._parts_decoded += 1")], f"{[(x.name, norm(n)) for n, x in pd_writes]}", ne, ne.node, "_parts_decoded writers")

    # ---------------- R10.3 -------------------------------------------
    mp = repo.cls("formparser.MultiPartParser")
    pa = mp.methods.get("parse")
    if pa is None:
        raise AnalysisError("MultiPartParser.parse missing")
    ctx.saw(pa)
    f = F(pa)
    cfg = f.cfg
    dtests = [t for t in f.tests() if isinstance(t.ast, ast.Call) and dotted(t.ast.func) == "isinstance" and len(t.ast.args) == 2 and norm(t.ast.args[0]) == "event" and norm(t.ast.args[1]) == "Data"]
    if len(dtests) != 1:
        raise AnalysisError("MultiPartParser.parse: `isinstance(event, Data)` branch not found (slot)")
    dt = dtests[0]
    writes = [c for c in astq.calls(pa.node) if any(any(norm(x) == "event.data" for x in ast.walk(a)) for a in c.args) and dotted(c.func) != "len" and not any(isinstance(a, ast.Call) and dotted(a.func) == "len" for a in c.args)]
    # a self-method that receives event.data and performs the size accounting is a helper, not a write
    helpers = {}
    for c in list(writes):
        if isinstance(c.func, ast.Attribute) and astq.is_self_attr(c.func) and c.func.attr in mp.methods:
            hs = _accounting_helper(ctx, mp.methods[c.func.attr])
            if hs is not None:
                helpers[id(c)] = (c, hs)
                writes.remove(c)
    ctx.floor("R10.3", "writes of event.data", len(writes), 1)
    ft = [(t, _exceeds_edge(f, t, {"max_form_memory_size"})) for t in f.tests()]
    ft = [(t, r) for t, r in ft if r is not None and norm(r[0]) == "field_size"]
    skips = _skip_edges(f, {"max_form_memory_size"}, ("field_size",))
    finc = [n for n in cfg.nodes if isinstance(n.ast, ast.AugAssign) and astq.is_name(n.ast.target, "field_size") and isinstance(n.ast.op, ast.Add) and norm(n.ast.value) == "len(event.data)"]
    for w in writes:
        wn = cfg.node_of(w)
        start = cfg.succ(dt, "T")
        ok = False
        if len(ft) == 1 and len(finc) == 1:
            t, (_, exc_label) = ft[0]
            r: set[int] = set()
            for s_ in start:
                r |= cfg.reach(s_, avoid_nodes=[t, dt], avoid_edges=skips)
            bypass = wn.id in r
            inc_first = all(t.id not in cfg.reach(s_, avoid_nodes=[finc[0], dt], avoid_edges=skips) for s_ in start)
            raises = _raises_retl(cfg, t, exc_label)
            ok = (not bypass) and inc_first and raises
            fact = f"inline check: write reachable in the Data branch without the size test (limit set, field part): {bypass}; size accumulated before the test: {inc_first}; exceeded edge raises: {raises}"
        elif helpers and not ft:
            # field_size = self._helper(field_size, event.data) dominates the write inside the Data branch
            facts = []
            for c, hs in helpers.values():
                hn = cfg.node_of(c)
                st = astq.stmt_of(pa, c)
                assigns_back = isinstance(st, ast.Assign) and len(st.targets) == 1 and astq.is_name(st.targets[0], "field_size") and st.value is c
                passes_size = len(c.args) >= 2 and norm(c.args[0]) == "field_size" and norm(c.args[1]) == "event.data"
                r = set()
                for s_ in start:
                    if s_ is not hn:
                        r |= cfg.reach(s_, avoid_nodes=[hn, dt])
                dom = wn.id not in r
                ok = ok or (assigns_back and passes_size and dom)
                facts.append(f"helper {c.func.attr}: {hs}; result assigned back to field_size: {assigns_back}; called with (field_size, event.data): {passes_size}; precedes the write on every path of the Data branch: {dom}")  # type: ignore[attr-defined]
            fact = "; ".join(facts)
        else:
            fact = f"size tests on field_size: {len(ft)}, increments: {len(finc)}, accounting helpers: {len(helpers)}"
        ctx.ob("R10.3", "the write of field data is bounded by the accumulated field size", ok, f"`{norm(w)}`: {fact}", pa, w, f"field write {norm(w)}")
    fdefs = astq.assigns_to(pa.node, "field_size")
    field_t = [t for t in f.tests() if isinstance(t.ast, ast.Call) and dotted(t.ast.func) == "isinstance" and norm(t.ast.args[0]) == "event" and norm(t.ast.args[1]) == "Field"]
    file_t = [t for t in f.tests() if isinstance(t.ast, ast.Call) and dotted(t.ast.func) == "isinstance" and norm(t.ast.args[0]) == "event" and norm(t.ast.args[1]) == "File"]
    z = [s for s, v in fdefs if v is not None and norm(v) == "0"]
    nn_ = [s for s, v in fdefs if v is not None and norm(v) == "None" and cfg.node_of(s) is not None and cfg.guards(cfg.node_of(s))]
    ok = len(field_t) == 1 and len(file_t) == 1 and len(z) == 1 and cfg.edge_dominates(field_t[0], "T", cfg.node_of(z[0])) and any(cfg.edge_dominates(file_t[0], "T", cfg.node_of(s)) for s in nn_)
    ctx.ob("R10.3", "field_size is reset to 0 at every Field and disabled (None) at every File", ok, f"assignments {[norm(s) for s, _ in fdefs]}", pa, pa.node, "field_size resets")
    helper_assigns = {id(astq.stmt_of(pa, c)) for c, _ in helpers.values()}
    other = [s for s, v in fdefs if not (v is not None and norm(v) in ("0", "None")) and not (isinstance(s, ast.AugAssign) and norm(s.value) == "len(event.data)") and id(s) not in helper_assigns]
    ctx.ob("R10.3", "field_size changes only by reset or by the accumulated length of event.data", not other, f"other writes: {[norm(s) for s in other]}", pa, pa.node, "field_size writers")

    # ---------------- R10.4 -------------------------------------------
    fp = repo.cls("formparser.FormDataParser")
    pu = fp.methods.get("_parse_urlencoded")
    if pu is None:
        raise AnalysisError("FormDataParser._parse_urlencoded missing")
    ctx.saw(pu)
    f = F(pu)
    cfg = f.cfg
    reads = [c for c in astq.method_calls(pu.node, "read") if not c.args and astq.is_name(c.func.value, "stream")]  # type: ignore[attr-defined]
    bounded_reads = [c for c in astq.method_calls(pu.node, "read") if c.args and astq.is_name(c.func.value, "stream")]  # type: ignore[attr-defined]
    ctx.floor("R10.4", "reads of the urlencoded body", len(reads) + len(bounded_reads), 1)
    ut = [(t, _exceeds_edge(f, t, {"max_form_memory_size"})) for t in f.tests()]
    ut = [(t, r) for t, r in ut if r is not None]
    skips = _skip_edges(f, {"max_form_memory_size"})
    for rcall in reads:
        rn = cfg.node_of(rcall)
        if len(ut) != 1:
            ctx.ob("R10.4", "unbounded read of the urlencoded body is preceded by a size bound", False, "no comparison against max_form_memory_size", pu, rcall, "urlencoded read bound")
            continue
        t, (bounded, exc_label) = ut[0]
        raises = _raises_retl(cfg, t, exc_label)
        after_exceeded = any(rn.id in cfg.reach(s_) for s_ in cfg.succ(t, exc_label))
        ctx.ob("R10.4", "declared urlencoded length above max_form_memory_size is refused before reading", raises and norm(bounded) == "content_length" and not after_exceeded, f"test `{norm(t.ast)}`, exceeded edge raises: {raises}", pu, t.ast, "urlencoded declared length")
        byp = rn.id in cfg.reach(avoid_nodes=[t], avoid_edges=skips)
        fact = "every path to stream.read() with a limit configured passes the size comparison" if not byp else "stream.read() is reachable with a limit configured and no bound applied: " + cfg.fmt_path(cfg.path(cfg.entry, rn, avoid_nodes=[t], avoid_edges=skips) or [])
        ctx.ob("R10.4", "unbounded stream.read() of the urlencoded body is dominated by a bound whenever a limit is configured", not byp, fact, pu, rcall, "urlencoded unbounded read when content_length is None")
    input_stream_rule(ctx, "R10.4")

    # ---------------- R10.5 -------------------------------------------
    chain = [
        ("wrappers.request.Request.make_form_data_parser", "form_data_parser_class", {"max_form_memory_size": "self.max_form_memory_size", "max_content_length": "self.max_content_length", "max_form_parts": "self.max_form_parts"}),
        ("formparser.parse_form_data", "FormDataParser", {"max_form_memory_size": "max_form_memory_size", "max_content_length": "max_content_length", "max_form_parts": "max_form_parts"}),
        ("formparser.FormDataParser.parse_from_environ", "get_input_stream", {"max_content_length": "self.max_content_length"}),
        ("formparser.FormDataParser._parse_multipart", "MultiPartParser", {"max_form_memory_size": "self.max_form_memory_size", "max_form_parts": "self.max_form_parts"}),
        ("formparser.MultiPartParser.parse", "MultipartDecoder", {"max_form_memory_size": "self.max_form_memory_size", "max_parts": "self.max_form_parts"}),
        ("wrappers.request.Request.stream", "get_input_stream", {"max_content_length": "self.max_content_length"}),
    ]
    nfw = 0
    for fq, callee, kws in chain:
        fi = repo.func(fq)
        ctx.saw(fi)
        ff = F(fi)
        calls = astq.name_calls(fi.node, callee)
        if len(calls) != 1:
            ctx.ob("R10.5", f"{fq} calls {callee}", False, f"{len(calls)} call(s) found", fi, fi.node, f"{fq} -> {callee}")
            continue
        for k, v in kws.items():
            nfw += 1
            got = astq.kwarg(calls[0], k)
            gtxt = norm(ff.al.expand(got, ff.cfg.node_of(calls[0]))) if got is not None else None
            ctx.ob("R10.5", f"{fi.qualname} forwards {k} to {callee}", gtxt == v, f"{k}={gtxt} (expected {v})", fi, calls[0], f"{fq} -> {callee}({k})")
    stores = [
        ("formparser.FormDataParser.__init__", ["max_form_memory_size", "max_content_length", "max_form_parts"]),
        ("formparser.MultiPartParser.__init__", ["max_form_memory_size", "max_form_parts"]),
        ("sansio.multipart.MultipartDecoder.__init__", ["max_form_memory_size", "max_parts"]),
    ]
    for fq, names in stores:
        fi = repo.func(fq)
        ctx.saw(fi)
        for nm in names:
            nfw += 1
            got = [norm(s.value) for s in walk_no_nested(fi.node) if isinstance(s, ast.Assign) and astq.is_self_attr(s.targets[0], nm)]
            ctx.ob("R10.5", f"{fi.qualname} stores {nm}", got == [nm] and nm in fi.params, f"self.{nm} = {got}", fi, fi.node, f"{fq} stores {nm}")
    ctx.floor("R10.5", "forwarding edges", nfw, 18)
    req = repo.cls("wrappers.request.Request")
    defaults = {k: norm(req.attrs[k]) if k in req.attrs else None for k in ("max_content_length", "max_form_memory_size", "max_form_parts")}
    ctx.ob("R10.5", "Request defaults are None / 500000 / 1000", defaults == {"max_content_length": "None", "max_form_memory_size": "500000", "max_form_parts": "1000"}, f"{defaults}", req.fq, None, "request defaults")

    # ---------------- R10.6 -------------------------------------------
    scope = [dec.methods[m] for m in dec.methods] + [fp.methods[m] for m in fp.methods] + [mp.methods[m] for m in mp.methods] + [repo.func("formparser.parse_form_data"), repo.func("wsgi.get_input_stream"), repo.func("wrappers.request.Request.make_form_data_parser"), repo.func("wrappers.request.Request.stream")]
    nuse = 0
    for fi in scope:
        ff = F(fi)
        # locals that are plain aliases of a limit (single definition `x = self.<limit>` / `x = <limit param>`)
        alias_names = set()
        for n in walk_no_nested(fi.node):
            if isinstance(n, ast.Assign) and len(n.targets) == 1 and isinstance(n.targets[0], ast.Name) and _is_limit(n.value, LIMIT_ATTRS) and len(astq.assigns_to(fi.node, n.targets[0].id)) == 1:
                alias_names.add(n.targets[0].id)
        helper_kind = _accounting_helper(ctx, fi) if fi.cls is mp else None
        for n in walk_no_nested(fi.node):
            is_use = False
            if isinstance(n, ast.Attribute) and n.attr in (LIMIT_ATTRS | COUNTERS) and isinstance(n.ctx, ast.Load):
                is_use = True
            elif isinstance(n, ast.Name) and n.id in (LIMIT_ATTRS | COUNTERS | alias_names) and isinstance(n.ctx, ast.Load):
                is_use = True
            if not is_use:
                continue
            nuse += 1
            kind = _classify_use(ff, n, alias_names, helper_kind is not None)
            st = astq.stmt_of(fi, n)
            ctx.ob("R10.6", f"{fi.qualname}: use of `{norm(n)}` is {kind or 'NOT a pure guard'}", kind is not None, f"in `{norm(st)[:90]}`", fi, n, f"{fi.qualname} use {norm(n)} in {norm(st)[:60]}")
    ctx.floor("R10.6", "uses of limits / counters", nuse, 25)


def _attr_writes(cls, attr: str):
    out = []
    for name, fi in cls.methods.items():
        for n in walk_no_nested(fi.node):
            if isinstance(n, (ast.Assign, ast.AugAssign, ast.AnnAssign)):
                tg = n.targets if isinstance(n, ast.Assign) else [n.target]
                if any(astq.is_self_attr(t_, attr) for t_ in tg):
                    out.append((n, fi))
    return out


def _accounting_helper(ctx: Ctx, h: FuncInfo) -> str | None:
    """summary of a one-level helper `h(self, size, data)`: returns a description when h (1) compares the accumulated
    size `size + len(data)` with max_form_memory_size and raises RequestEntityTooLarge on the exceeded edge, (2) returns
    normally only past the not-exceeded edge or when the limit / the size is None, (3) returns the accumulated size."""
    if len(h.params) != 3:
        return None
    _, psize, pdata = h.params
    f = F(h)
    cmps = [(t, _exceeds_edge(f, t, {"max_form_memory_size"})) for t in f.tests()]
    cmps = [(t, r) for t, r in cmps if r is not None]
    if len(cmps) != 1:
        return None
    t, (bounded, exc_label) = cmps[0]
    bt = norm(f.al.expand(bounded, t))
    acc_texts = {f"{psize} + len({pdata})", f"len({pdata}) + {psize}"}
    acc_name = None
    if bt not in acc_texts:
        if isinstance(bounded, ast.Name):
            defs = f.rd.reaching(t, bounded.id)
            if defs and all(d.value is not None and (norm(d.value) in acc_texts or (d.kind == "aug" and norm(d.value) == f"len({pdata})" and bounded.id == psize)) for d in defs):
                acc_name = bounded.id
            else:
                return None
        else:
            return None
    if not _raises_retl(f.cfg, t, exc_label):
        return None
    ok_label = "F" if exc_label == "T" else "T"
    skips = _skip_edges(f, {"max_form_memory_size"}, (psize,))
    if f.cfg.exit.id in f.cfg.reach(avoid_edges=[(t, ok_label)] + skips):
        return None
    rets = astq.returns_of(h.node)
    past = [r for r in rets if f.cfg.edge_dominates(t, ok_label, f.cfg.node_of(r))]
    if not past or not all(norm(r.value) in acc_texts | ({acc_name} if acc_name else set()) for r in past):
        return None
    others = [r for r in rets if r not in past]
    if not all(norm(r.value) in (psize, "None") for r in others):
        return None
    return f"raises RequestEntityTooLarge when {bt} exceeds max_form_memory_size, returns the accumulated size otherwise"


def _classify_use(f: F, n: ast.AST, alias_names: set[str], in_helper: bool) -> str | None:
    cfg = f.cfg
    p = astq.parent(n)
    if isinstance(p, ast.keyword) and p.arg in LIMIT_ATTRS:
        return "a forwarding edge"
    if isinstance(p, ast.Assign) and p.value is n and len(p.targets) == 1 and isinstance(p.targets[0], ast.Attribute) and p.targets[0].attr in LIMIT_ATTRS:
        return "a forwarding edge"
    if isinstance(p, ast.Assign) and p.value is n and len(p.targets) == 1 and isinstance(p.targets[0], ast.Name) and p.targets[0].id in alias_names:
        return "the definition of a local alias (whose uses are classified too)"
    if isinstance(p, ast.Call) and (dotted(p.func) or "").endswith("LimitedStream") and astq.kwarg(p, "is_max") is not None and norm(astq.kwarg(p, "is_max")) == "True" and len(p.args) > 1 and p.args[1] is n:
        return "the limit of a maximum-limited stream"
    cur = n
    while astq.parent(cur) is not None and not isinstance(astq.parent(cur), (ast.stmt, ast.BoolOp)) and not (isinstance(astq.parent(cur), ast.UnaryOp) and isinstance(astq.parent(cur).op, ast.Not)):  # type: ignore[union-attr]
        cur = astq.parent(cur)  # type: ignore[assignment]
    if isinstance(cur, ast.Compare):
        tn = [t for t in cfg.tests() if t.ast is cur]
        if tn:
            cp = astq.cmp_parts(cur)
            if cp and isinstance(cp[1], (ast.Is, ast.IsNot)) and astq.is_none(cp[2]):
                return "an is-None test"
            ex = _exceeds_edge(f, tn[0], LIMIT_ATTRS)
            if ex is not None and _raises_retl(cfg, tn[0], ex[1]):
                return "a guard comparison whose exceeded edge only raises RequestEntityTooLarge"
            return None
    if in_helper:
        # inside the accounting helper: the accumulated size `size + len(data)` and its return are the counter's update
        st = cur
        while st is not None and not isinstance(st, ast.stmt):
            st = astq.parent(st)
        if isinstance(st, (ast.Assign, ast.Return)) and isinstance(n, ast.Name) and n.id in COUNTERS | {f.fi.params[1]}:
            return "the counter's own update (accounting helper)"
    # passing the counter to the accounting helper: field_size = self._helper(field_size, event.data)
    if isinstance(p, ast.Call) and isinstance(p.func, ast.Attribute) and astq.is_self_attr(p.func) and isinstance(n, ast.Name) and n.id in COUNTERS:
        st = astq.parent(p)
        if isinstance(st, ast.Assign) and len(st.targets) == 1 and astq.is_name(st.targets[0], n.id):
            return "the counter's own update (through the accounting helper)"
    return None
