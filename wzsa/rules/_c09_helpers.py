"""Shared analysis machinery of the C09 / C10 rule modules.

Three layers, each independent of how the analysed code is *spelled*:

1. ``normalise``: a function is rewritten (on a private copy of its AST) into a canonical statement form -
   calls of helpers of the same class / module are expanded in place (statement helpers and expression helpers,
   properties included), conditional expressions and value-position ``or`` / ``and`` become if/else statements.
   After that a guard that lives in a helper, an operation that lives in a helper, a value that travels through a
   conditional expression and the original inline code all have the same CFG.
2. ``Sym``: path enumeration with a symbolic store.  Every condition atom and every interesting value is expressed
   over the values at the start of the path (locals, ``self`` attributes, results of opaque calls), so renamed
   locals, aliases, tuple assignments, running totals kept in a second variable etc. do not matter.
3. canonical atoms over *integer linear forms*: ``a + b > c``, ``c < b + a``, ``not a + b <= c``,
   ``a > c - b`` and ``a + b >= c + 1`` are one atom; ``implies_le`` answers "does this path guarantee X <= Y".

Nothing here executes analysed code: expressions are rewritten and compared, small integer expressions are
evaluated by ``ieval`` over a handful of sample values of an opaque symbol.
"""

from __future__ import annotations

import ast
import re
import typing as t

from ..cfg import CFG, Node
from ..dataflow import ReachingDefs
from ..guards import canon as text_canon
from ..loader import AnalysisError, ClassInfo, FuncInfo, dotted, norm, walk_no_nested

# ---------------------------------------------------------------------
# AST cloning (the loader hangs ``_parent`` on every node: copy.deepcopy would copy the whole module)

_POS = ("lineno", "col_offset", "end_lineno", "end_col_offset")


def clone(n: t.Any) -> t.Any:
    if isinstance(n, list):
        return [clone(x) for x in n]
    if not isinstance(n, ast.AST):
        return n
    new = n.__class__()
    for f in n._fields:
        if hasattr(n, f):
            setattr(new, f, clone(getattr(n, f)))
    for a in _POS:
        if hasattr(n, a):
            setattr(new, a, getattr(n, a))
    return new


def set_parents(root: ast.AST) -> None:
    for node in ast.walk(root):
        for ch in ast.iter_child_nodes(node):
            ch._parent = node  # type: ignore[attr-defined]


def _at(new: ast.AST, like: ast.AST) -> t.Any:
    for a in _POS:
        if hasattr(like, a):
            setattr(new, a, getattr(like, a))
    for ch in ast.walk(new):
        for a in _POS:
            if not hasattr(ch, a) and hasattr(like, a):
                setattr(ch, a, getattr(like, a))
    return new


def _name(id_: str, store: bool = False) -> ast.Name:
    return ast.Name(id=id_, ctx=ast.Store() if store else ast.Load())


# ---------------------------------------------------------------------
# normalisation


def _is_minmax(e: ast.AST) -> str | None:
    if isinstance(e, ast.Call) and dotted(e.func) in ("min", "max") and len(e.args) >= 2 and not e.keywords and not any(isinstance(a, ast.Starred) for a in e.args):
        return dotted(e.func)
    return None


class _CanonValue(ast.NodeTransformer):
    """value spellings with one meaning: `d[k] if k in d else x` is `d.get(k, x)` (`d.get(k)` when x is None)."""

    def visit_Lambda(self, n):  # noqa: N802
        return n

    def visit_IfExp(self, n: ast.IfExp):  # noqa: N802
        self.generic_visit(n)
        t_, a, b = n.test, n.body, n.orelse
        neg = False
        if isinstance(t_, ast.UnaryOp) and isinstance(t_.op, ast.Not):
            t_, neg = t_.operand, True
        if isinstance(t_, ast.Compare) and len(t_.ops) == 1 and isinstance(t_.ops[0], (ast.In, ast.NotIn)):
            if isinstance(t_.ops[0], ast.NotIn):
                neg = not neg
            if neg:
                a, b = b, a
            k, d = t_.left, t_.comparators[0]
            if isinstance(a, ast.Subscript) and norm(a.value) == norm(d) and norm(a.slice) == norm(k) and isinstance(d, (ast.Name, ast.Attribute)) and isinstance(k, (ast.Constant, ast.Name)):
                args = [k] if (isinstance(b, ast.Constant) and b.value is None) else [k, b]
                return _at(ast.Call(func=ast.Attribute(value=d, attr="get", ctx=ast.Load()), args=args, keywords=[]), n)
        return n


class _CanonCond(ast.NodeTransformer):
    """spellings of a condition that mean a conjunction / disjunction of simpler atoms are written as such:
    `None in (a, b)`            -> a is None or b is None
    `(a, b) == (c, d)`          -> a == c and b == d
    `x == True` / `x is True`   -> x            (`False`: not x)
    `max(a, b) > c`             -> a > c or b > c        (min: and; on the other side: the dual)
    `min(a, b) == a`            -> a <= b                 (max: a >= b)
    so that the CFG splits them into atoms like any other `and` / `or`."""

    def visit_Lambda(self, n):  # noqa: N802
        return n

    def visit_Compare(self, n: ast.Compare):  # noqa: N802
        self.generic_visit(n)
        if len(n.ops) != 1:
            return n
        a, op, b = n.left, n.ops[0], n.comparators[0]
        # None in (x, y)
        if isinstance(op, (ast.In, ast.NotIn)) and isinstance(a, ast.Constant) and a.value is None and isinstance(b, (ast.Tuple, ast.List, ast.Set)) and b.elts and not any(isinstance(x, ast.Starred) for x in b.elts):
            parts = [ast.Compare(left=x, ops=[ast.Is() if isinstance(op, ast.In) else ast.IsNot()], comparators=[ast.Constant(value=None)]) for x in b.elts]
            return _at(parts[0] if len(parts) == 1 else ast.BoolOp(op=ast.Or() if isinstance(op, ast.In) else ast.And(), values=parts), n)
        # tuple equality
        if isinstance(op, (ast.Eq, ast.NotEq)) and isinstance(a, ast.Tuple) and isinstance(b, ast.Tuple) and len(a.elts) == len(b.elts) and a.elts and not any(isinstance(x, ast.Starred) for x in a.elts + b.elts):
            parts = [self.visit(ast.Compare(left=x, ops=[ast.Eq()], comparators=[y])) for x, y in zip(a.elts, b.elts)]
            conj: ast.AST = parts[0] if len(parts) == 1 else ast.BoolOp(op=ast.And(), values=parts)
            return _at(conj if isinstance(op, ast.Eq) else ast.UnaryOp(op=ast.Not(), operand=conj), n)
        # comparison with a boolean constant
        if isinstance(op, (ast.Eq, ast.NotEq, ast.Is, ast.IsNot)):
            for x, y in ((a, b), (b, a)):
                if isinstance(y, ast.Constant) and isinstance(y.value, bool) and (isinstance(x, (ast.Compare, ast.BoolOp, ast.UnaryOp, ast.Name, ast.Attribute)) or (isinstance(x, ast.Call) and dotted(x.func) in ("bool", "isinstance", "hasattr", "callable"))):
                    pos = y.value == isinstance(op, (ast.Eq, ast.Is))
                    return _at(x if pos else ast.UnaryOp(op=ast.Not(), operand=x), n)
        # min / max on one side of an ordering
        if isinstance(op, (ast.Lt, ast.LtE, ast.Gt, ast.GtE)):
            for side, other, flip in ((a, b, False), (b, a, True)):
                mm = _is_minmax(side)
                if mm is None:
                    continue
                # side OP other (or other OP side when flip): true for max iff some operand satisfies it when the
                # comparison asks for "side large", all operands when it asks for "side small"; min is the dual
                wants_large = isinstance(op, (ast.Gt, ast.GtE)) != flip
                some = (mm == "max") == wants_large
                parts = []
                for x in side.args:  # type: ignore[union-attr]
                    cmp_ = ast.Compare(left=clone(other) if flip else x, ops=[op], comparators=[x if flip else clone(other)])
                    parts.append(self.visit(cmp_))
                return _at(ast.BoolOp(op=ast.Or() if some else ast.And(), values=parts), n)
        # min(a, b) == a  <=>  a <= b ;  max(a, b) == a  <=>  a >= b
        if isinstance(op, (ast.Eq, ast.NotEq)):
            for side, other in ((a, b), (b, a)):
                mm = _is_minmax(side)
                if mm is None or len(side.args) != 2:  # type: ignore[union-attr]
                    continue
                x, y = side.args  # type: ignore[union-attr]
                rest = y if norm(x) == norm(other) else x if norm(y) == norm(other) else None
                if rest is None:
                    continue
                cmp_ = ast.Compare(left=clone(other), ops=[ast.LtE() if mm == "min" else ast.GtE()], comparators=[rest])
                return _at(cmp_ if isinstance(op, ast.Eq) else ast.UnaryOp(op=ast.Not(), operand=cmp_), n)
        return n


class _Renamer(ast.NodeTransformer):
    def __init__(self, mapping: dict[str, str]):
        self.m = mapping

    def visit_Name(self, n: ast.Name):  # noqa: N802
        if n.id in self.m:
            return _at(ast.Name(id=self.m[n.id], ctx=n.ctx), n)
        return n

    def visit_FunctionDef(self, n):  # noqa: N802  (nested defs keep their own scope)
        return n

    visit_AsyncFunctionDef = visit_FunctionDef
    visit_Lambda = visit_FunctionDef


def _body_wo_doc(fn: ast.AST) -> list[ast.stmt]:
    body = list(fn.body)  # type: ignore[attr-defined]
    if body and isinstance(body[0], ast.Expr) and isinstance(body[0].value, ast.Constant) and isinstance(body[0].value.value, str):
        body = body[1:]
    return body


def _simple_arg(e: ast.AST) -> bool:
    while isinstance(e, ast.Attribute):
        e = e.value
    return isinstance(e, (ast.Name, ast.Constant))


def _is_record_class(k: ClassInfo) -> bool:
    """a small private record a function keeps its state in (not one of the package's public classes)."""
    decs = [dotted(d.func if isinstance(d, ast.Call) else d) or "" for d in k.node.decorator_list]
    bases = [dotted(b) or "" for b in k.node.bases]
    return k.name.startswith("_") or any(d.rsplit(".", 1)[-1] == "dataclass" for d in decs) or any(b.rsplit(".", 1)[-1] in ("NamedTuple", "TypedDict") for b in bases)


class Normaliser:
    """produces the canonical copy of one function."""

    def __init__(self, repo, fi: FuncInfo, want: t.Callable[[FuncInfo], bool] | None = None, depth: int = 3, cross_module: bool = False):
        self.repo = repo
        self.cross_module = cross_module
        self.fi = fi
        self._want = want or (lambda h: True)
        self.depth = depth
        self.counter = 0
        self._nested: dict[str, FuncInfo] = {}
        self._callable_alias: dict[str, tuple[ast.AST, list[ast.AST], list[ast.keyword]]] = {}
        self._object_class: dict[str, ClassInfo] = {}
        self._dict_locals: dict[str, ast.AST] = {}
        self._modstack: list[t.Any] = []
        self._receiver: dict[int, str] = {}  # id(call) -> name of the local object the method is called on
        self.inlined: list[FuncInfo] = []  # helpers whose code is now part of the copy
        self.refused: list[tuple[FuncInfo, str]] = []

    def want(self, h: FuncInfo, call: ast.Call | None = None) -> bool:
        w = self._want
        if getattr(w, "_takes_call", False):
            return bool(w(h, call))
        return bool(w(h))

    # -- helper resolution -------------------------------------------------
    def _helper_of(self, call: ast.Call, selfname: str | None) -> tuple[FuncInfo, bool] | None:
        """(helper, bound?) for `self.h(...)` / `h(...)` / `Cls.h(...)` resolved inside the package."""
        f = call.func
        cls = self.fi.cls
        if isinstance(f, ast.Attribute) and isinstance(f.value, ast.Name) and selfname and f.value.id == selfname and cls is not None:
            owner, what = self.repo.lookup(cls, f.attr)
            if isinstance(what, FuncInfo) and isinstance(owner, ClassInfo):
                decs = what.decorators
                if any(d.endswith("staticmethod") for d in decs):
                    return what, False
                if decs:
                    return None
                return what, True
            return None
        if isinstance(f, ast.Attribute) and isinstance(f.value, ast.Name) and f.value.id in self._object_class:
            # a method of a small state object built in this function: `state = _PartState(...); state.add(n)`
            k = self._object_class[f.value.id]
            owner, what = self.repo.lookup(k, f.attr)
            if isinstance(what, FuncInfo) and isinstance(owner, ClassInfo) and not what.decorators:
                self._receiver[id(call)] = f.value.id
                return what, True
            return None
        if self.cross_module and isinstance(f, ast.Attribute) and isinstance(f.value, ast.Name) and f.value.id in self.fi.module.imports and f.value.id not in self._object_class:
            target = self.repo.canonical(self.fi.module.imports[f.value.id])
            m2 = self.repo.modules.get(target)
            if m2 is not None and f.attr in m2.functions and not m2.functions[f.attr].decorators:
                return m2.functions[f.attr], False
        if isinstance(f, ast.Name):
            nested = self._nested.get(f.id)
            if nested is not None:
                return nested, False
            # inside the expansion of a helper of another module, plain names are that module's functions
            for mod in ([self._modstack[-1]] if self._modstack else []) + [self.fi.module]:
                h = mod.functions.get(f.id)
                if h is not None and not h.decorators:
                    return h, False
        return None

    def _scan_locals(self, fn: ast.AST, selfname: str | None) -> None:
        """functions defined inside the analysed function (closures) and locals that only ever hold one callable:
        `check = self._check`, `check = functools.partial(self._check, limit)`."""
        self._nested: dict[str, FuncInfo] = {}
        self._callable_alias: dict[str, tuple[ast.AST, list[ast.AST], list[ast.keyword]]] = {}
        self._object_class: dict[str, ClassInfo] = {}
        self._dict_locals: dict[str, ast.AST] = {}
        defs: dict[str, list[ast.AST]] = {}
        for x in walk_no_nested(fn):
            if isinstance(x, (ast.FunctionDef,)) and x is not fn:
                defs.setdefault(x.name, []).append(x)
            elif isinstance(x, ast.Name) and isinstance(x.ctx, (ast.Store, ast.Del)):
                defs.setdefault(x.id, []).append(getattr(x, "_parent", None) or x)
        for name, ds in defs.items():
            if len(ds) != 1:
                continue
            d = ds[0]
            if isinstance(d, ast.FunctionDef) and not d.decorator_list:
                self._nested[name] = FuncInfo(self.fi.module, d, f"{self.fi.qualname}.<locals>.{name}", None)
            elif isinstance(d, (ast.Assign, ast.AnnAssign)) and d.value is not None and (not isinstance(d, ast.Assign) or (len(d.targets) == 1 and isinstance(d.targets[0], ast.Name))):
                v = d.value
                if isinstance(v, ast.Attribute) and isinstance(v.value, ast.Name) and selfname and v.value.id == selfname and self.fi.cls is not None and isinstance(self.repo.lookup(self.fi.cls, v.attr)[1], FuncInfo):
                    self._callable_alias[name] = (v, [], [])
                elif isinstance(v, ast.Name) and (v.id in self.fi.module.functions):
                    self._callable_alias[name] = (v, [], [])
                elif isinstance(v, ast.Dict) or (isinstance(v, ast.Call) and dotted(v.func) == "dict" and not v.args):
                    stores = [y for y in walk_no_nested(fn) if isinstance(y, ast.Subscript) and isinstance(y.value, ast.Name) and y.value.id == name and isinstance(y.ctx, (ast.Store, ast.Del))]
                    if not stores:
                        self._dict_locals[name] = v
                elif isinstance(v, ast.Call) and (dotted(v.func) or "").rsplit(".", 1)[-1] == "partial" and v.args and not any(isinstance(a, ast.Starred) for a in v.args) and all(k.arg is not None for k in v.keywords):
                    self._callable_alias[name] = (v.args[0], list(v.args[1:]), list(v.keywords))

    def _scan_records(self, fn: ast.AST) -> None:
        """locals that only ever hold instances of one small record class of the module (or None)."""
        vals: dict[str, list[ast.AST | None]] = {}
        for x in walk_no_nested(fn):
            if isinstance(x, ast.Assign):
                for tg in x.targets:
                    if isinstance(tg, ast.Name):
                        vals.setdefault(tg.id, []).append(x.value)
                    else:
                        for y in ast.walk(tg):
                            if isinstance(y, ast.Name) and isinstance(y.ctx, ast.Store):
                                vals.setdefault(y.id, []).append(None)
            elif isinstance(x, ast.AnnAssign) and isinstance(x.target, ast.Name):
                if x.value is not None:
                    vals.setdefault(x.target.id, []).append(x.value)
            elif isinstance(x, (ast.AugAssign, ast.NamedExpr, ast.For, ast.With)):
                tgt = x.target if hasattr(x, "target") else None
                for y in ast.walk(tgt) if tgt is not None else []:
                    if isinstance(y, ast.Name) and (isinstance(y.ctx, ast.Store) or y is tgt):
                        vals.setdefault(y.id, []).append(None)
        for name, vs in vals.items():
            ks = set()
            ok = bool(vs)
            for v in vs:
                if isinstance(v, ast.Constant) and v.value is None:
                    continue
                k = self._record_class_of(v)
                if k is None:
                    ok = False
                    break
                ks.add(k.fq)
                kk = k
            if ok and len(ks) == 1:
                self._object_class[name] = kk

    def _record_class_of(self, v: ast.AST | None) -> ClassInfo | None:
        """the record class when v is `K(...)` or `<record>._replace(...)` / a method of a record returning its own class is not followed."""
        if isinstance(v, ast.Call) and isinstance(v.func, ast.Name) and v.func.id in self.fi.module.classes:
            k = self.fi.module.classes[v.func.id]
            if k is not self.fi.cls and _is_record_class(k):
                return k
        if isinstance(v, ast.Call) and isinstance(v.func, ast.Attribute) and isinstance(v.func.value, ast.Name) and v.func.value.id in self._object_class:
            k = self._object_class[v.func.value.id]
            if v.func.attr == "_replace":
                return k
            m = k.methods.get(v.func.attr)
            if m is not None and m.node.returns is not None and norm(m.node.returns).strip("'\"") == k.name:  # type: ignore[attr-defined]
                return k
        return None

    def _resolve_callable_aliases(self, fn: ast.AST) -> None:
        """`check(x)` -> `self._check(limit, x)` for the aliases found by _scan_locals."""
        if not self._callable_alias:
            return
        for x in walk_no_nested(fn):
            if isinstance(x, ast.Call) and isinstance(x.func, ast.Name) and x.func.id in self._callable_alias:
                target, pre_args, pre_kws = self._callable_alias[x.func.id]
                x.func = clone(target)
                x.args = [clone(a) for a in pre_args] + x.args
                x.keywords = [clone(k) for k in pre_kws] + x.keywords

    def _property_of(self, e: ast.Attribute, selfname: str | None) -> FuncInfo | None:
        cls = self.fi.cls
        if cls is None or not (isinstance(e.value, ast.Name) and selfname and e.value.id == selfname):
            return None
        owner, what = self.repo.lookup(cls, e.attr)
        if isinstance(what, FuncInfo) and any(d in ("property", "cached_property", "functools.cached_property") for d in what.decorators):
            return what
        return None

    @staticmethod
    def _expr_body(h: FuncInfo) -> ast.AST | None:
        body = _body_wo_doc(h.node)
        if len(body) == 1 and isinstance(body[0], ast.Return) and body[0].value is not None:
            return body[0].value
        return None

    def _bind(self, h: FuncInfo, call: ast.Call, bound: bool) -> dict[str, ast.AST] | None:
        if any(k.arg is None for k in call.keywords):
            # f(**options) with `options` a local bound once to a dict display / dict(k=v): spelled-out keywords
            kws: list[ast.keyword] = []
            for k in call.keywords:
                v = k.value
                if k.arg is None and isinstance(v, ast.Name) and v.id in self._dict_locals:
                    v = self._dict_locals[v.id]
                if k.arg is not None:
                    kws.append(k)
                elif isinstance(v, ast.Dict) and all(isinstance(x, ast.Constant) and isinstance(x.value, str) for x in v.keys):
                    kws.extend(ast.keyword(arg=x.value, value=clone(y)) for x, y in zip(v.keys, v.values))  # type: ignore[union-attr]
                elif isinstance(v, ast.Call) and dotted(v.func) == "dict" and not v.args and all(x.arg is not None for x in v.keywords):
                    kws.extend(clone(x) for x in v.keywords)
                else:
                    return None
            call = ast.Call(func=call.func, args=call.args, keywords=kws)
        if any(isinstance(x, ast.Starred) and isinstance(x.value, (ast.Tuple, ast.List)) and not any(isinstance(y, ast.Starred) for y in x.value.elts) for x in call.args):
            flat: list[ast.AST] = []
            for x in call.args:  # f(*(a, b)) is f(a, b)
                if isinstance(x, ast.Starred) and isinstance(x.value, (ast.Tuple, ast.List)):
                    flat.extend(x.value.elts)
                else:
                    flat.append(x)
            call = ast.Call(func=call.func, args=flat, keywords=call.keywords)
        a = h.node.args  # type: ignore[attr-defined]
        if a.vararg or a.kwarg or any(isinstance(x, ast.Starred) for x in call.args) or any(k.arg is None for k in call.keywords):
            return None
        pos = [x.arg for x in a.posonlyargs + a.args]
        if bound:
            pos = pos[1:]
        names = pos + [x.arg for x in a.kwonlyargs]
        out: dict[str, ast.AST] = {}
        if len(call.args) > len(pos):
            return None
        for p, v in zip(pos, call.args):
            out[p] = v
        for k in call.keywords:
            if k.arg not in names or k.arg in out:
                return None
            out[k.arg] = k.value
        defaults = dict(zip([x.arg for x in (a.posonlyargs + a.args)][-len(a.defaults):] if a.defaults else [], a.defaults))
        for x, d in zip(a.kwonlyargs, a.kw_defaults):
            if d is not None:
                defaults[x.arg] = d
        for p in names:
            if p not in out:
                if p in defaults:
                    out[p] = defaults[p]
                else:
                    return None
        return out

    # -- expression helpers -----------------------------------------------
    def _expand_expr(self, e: ast.AST, selfname: str | None, depth: int) -> ast.AST:
        """expression helpers (single `return <expr>`) and properties of the own class are substituted."""
        norm_ = self
        e = _CanonCond().visit(_CanonValue().visit(e))

        class T(ast.NodeTransformer):
            def visit_Lambda(self, n):  # noqa: N802
                return n

            def visit_Attribute(self, n: ast.Attribute):  # noqa: N802
                self.generic_visit(n)
                if isinstance(n.ctx, ast.Load) and depth > 0:
                    p = norm_._property_of(n, selfname)
                    if p is not None and norm_.want(p):
                        body = norm_._expr_body(p)
                        if body is not None and not any(isinstance(x, (ast.Yield, ast.YieldFrom, ast.Await, ast.NamedExpr)) for x in ast.walk(body)):
                            pself = p.params[0] if p.params else None
                            new = clone(body)
                            if pself and selfname and pself != selfname:
                                new = _Renamer({pself: selfname}).visit(new)
                            if p not in norm_.inlined:
                                norm_.inlined.append(p)
                            return _at(norm_._expand_expr(new, selfname, depth - 1), n)
                return n

            def visit_Call(self, n: ast.Call):  # noqa: N802
                self.generic_visit(n)
                if depth <= 0:
                    return n
                r = norm_._helper_of(n, selfname)
                if r is None:
                    return n
                h, bound = r
                if not norm_.want(h, n) or h is norm_.fi:
                    return n
                body = norm_._expr_body(h)
                if body is None or any(isinstance(x, (ast.Yield, ast.YieldFrom, ast.Await, ast.NamedExpr, ast.Lambda, ast.ListComp, ast.SetComp, ast.DictComp, ast.GeneratorExp)) for x in ast.walk(body)):
                    return n
                binding = norm_._bind(h, n, bound)
                if binding is None:
                    return n
                uses = {p: sum(1 for x in ast.walk(body) if isinstance(x, ast.Name) and x.id == p) for p in binding}
                if not all(_simple_arg(v) or uses[p] <= 1 for p, v in binding.items()):
                    return n
                hself = h.params[0] if bound and h.params else None
                recv = norm_._receiver.get(id(n), selfname)

                class S(ast.NodeTransformer):
                    def visit_Name(self, x: ast.Name):  # noqa: N802
                        if x.id in binding and isinstance(x.ctx, ast.Load):
                            return clone(binding[x.id])
                        if hself and x.id == hself and recv:
                            return _at(ast.Name(id=recv, ctx=x.ctx), x)
                        return x

                new = S().visit(clone(body))
                if h not in norm_.inlined:
                    norm_.inlined.append(h)
                norm_._modstack.append(h.module)
                try:
                    return _at(norm_._expand_expr(new, selfname, depth - 1), n)
                finally:
                    norm_._modstack.pop()

        return T().visit(e)

    # -- statement helpers ---------------------------------------------------
    def _inlinable_body(self, h: FuncInfo) -> str | None:
        """None when the helper's statements can be spliced; otherwise the reason."""
        fn = h.node
        for x in walk_no_nested(fn):
            if isinstance(x, (ast.Yield, ast.YieldFrom, ast.Await)):
                return "generator / coroutine"
            if isinstance(x, ast.Global) or (isinstance(x, ast.Nonlocal) and "<locals>" not in h.qualname):
                return "global / nonlocal"
            if isinstance(x, (ast.FunctionDef, ast.AsyncFunctionDef, ast.ClassDef)):
                return "nested definition"
        def ret_in_loop(stmts, in_loop: bool, in_try_final: bool) -> bool:
            for s in stmts:
                if isinstance(s, ast.Return) and (in_loop or in_try_final):
                    return True
                if isinstance(s, (ast.For, ast.While, ast.AsyncFor)):
                    if ret_in_loop(s.body, True, in_try_final) or ret_in_loop(s.orelse, in_loop, in_try_final):
                        return True
                elif isinstance(s, ast.Try):
                    fin = in_try_final or bool(s.finalbody)
                    if ret_in_loop(s.body, in_loop, fin) or ret_in_loop(s.orelse, in_loop, fin) or ret_in_loop(s.finalbody, in_loop, in_try_final):
                        return True
                    for hd in s.handlers:
                        if ret_in_loop(hd.body, in_loop, fin):
                            return True
                elif isinstance(s, (ast.If,)):
                    if ret_in_loop(s.body, in_loop, in_try_final) or ret_in_loop(s.orelse, in_loop, in_try_final):
                        return True
                elif isinstance(s, (ast.With, ast.AsyncWith)):
                    if ret_in_loop(s.body, in_loop, in_try_final):
                        return True
            return False
        if ret_in_loop(fn.body, False, False):  # type: ignore[attr-defined]
            return "return inside a loop / try-finally"
        return None

    def _splice(self, h: FuncInfo, call: ast.Call, bound: bool, selfname: str | None, depth: int, like: ast.AST) -> tuple[list[ast.stmt], str] | None:
        """statements equivalent to the call + the name that holds its result."""
        why = self._inlinable_body(h)
        if why is not None:
            self.refused.append((h, why))
            return None
        binding = self._bind(h, call, bound)
        if binding is None:
            self.refused.append((h, "arguments cannot be bound"))
            return None
        self.counter += 1
        pre = f"_h{self.counter}_"
        hself = h.params[0] if bound and h.params else None
        locals_ = set(binding)
        shared: set[str] = set()  # names a closure declares nonlocal: they are the caller's variables
        for x in walk_no_nested(h.node):
            if isinstance(x, ast.Nonlocal):
                shared.update(x.names)
        for x in walk_no_nested(h.node):
            if isinstance(x, ast.Name) and isinstance(x.ctx, (ast.Store, ast.Del)):
                locals_.add(x.id)
            elif isinstance(x, ast.ExceptHandler) and x.name:
                locals_.add(x.name)
        locals_ -= shared
        mapping = {nm: pre + nm for nm in locals_}
        recv = self._receiver.get(id(call), selfname)
        if hself and recv:
            mapping[hself] = recv
        ret = pre + "ret"
        out: list[ast.stmt] = []
        for p, v in binding.items():
            out.append(_at(ast.Assign(targets=[_name(pre + p, True)], value=clone(v), type_comment=None), like))
        body = [_Renamer(mapping).visit(clone(s)) for s in _body_wo_doc(h.node) if not isinstance(s, ast.Nonlocal)]
        for s in body:
            for x in ast.walk(s):
                if isinstance(x, ast.ExceptHandler) and x.name in mapping:
                    x.name = mapping[x.name]

        def lower_returns(stmts: list[ast.stmt]) -> list[ast.stmt]:
            res: list[ast.stmt] = []
            for s in stmts:
                if isinstance(s, ast.Return):
                    v = s.value if s.value is not None else ast.Constant(value=None)
                    res.append(_at(ast.Assign(targets=[_name(ret, True)], value=v, type_comment=None), s))
                    res.append(_at(ast.Break(), s))
                    continue
                for fld in ("body", "orelse", "finalbody"):
                    lst = getattr(s, fld, None)
                    if isinstance(lst, list) and lst and isinstance(lst[0], ast.stmt):
                        setattr(s, fld, lower_returns(lst))
                for hd in getattr(s, "handlers", []) or []:
                    hd.body = lower_returns(hd.body)
                res.append(s)
            return res

        body = lower_returns(body)
        body.append(_at(ast.Assign(targets=[_name(ret, True)], value=ast.Constant(value=None), type_comment=None), like))
        body.append(_at(ast.Break(), like))
        wrapper = _at(ast.While(test=ast.Constant(value=True), body=body, orelse=[]), like)
        wrapper._inlined_from = h  # type: ignore[attr-defined]
        out.append(wrapper)
        if h not in self.inlined:
            self.inlined.append(h)
        self._modstack.append(h.module)
        try:
            out = self._block(out, selfname, depth - 1)
        finally:
            self._modstack.pop()
        return out, ret

    # -- lowering of conditional values --------------------------------------
    def _hoist_conditionals(self, st: ast.stmt, like: ast.AST) -> list[ast.stmt]:
        """`x = a if c else b` -> if c: x = a else: x = b ; nested conditional expressions go through a temporary;
        `return a or b` -> t = a; if t: return t else: return b."""
        pre: list[ast.stmt] = []
        norm_ = self

        def temp() -> str:
            norm_.counter += 1
            return f"_c{norm_.counter}"

        def lower_value(target_stmt: t.Callable[[ast.AST], ast.stmt], v: ast.AST) -> list[ast.stmt]:
            if isinstance(v, ast.IfExp):
                return [_at(ast.If(test=v.test, body=lower_value(target_stmt, v.body), orelse=lower_value(target_stmt, v.orelse)), like)]
            if isinstance(v, ast.BoolOp) and len(v.values) >= 2:
                first, rest = v.values[0], v.values[1:]
                rest_e: ast.AST = rest[0] if len(rest) == 1 else ast.BoolOp(op=v.op, values=rest)
                if _simple_arg(first):
                    a_first: ast.AST = first
                    setup: list[ast.stmt] = []
                else:
                    tn = temp()
                    setup = [_at(ast.Assign(targets=[_name(tn, True)], value=first, type_comment=None), like)]
                    a_first = _name(tn)
                if isinstance(v.op, ast.Or):
                    node = ast.If(test=clone(a_first), body=lower_value(target_stmt, clone(a_first)), orelse=lower_value(target_stmt, rest_e))
                else:
                    node = ast.If(test=clone(a_first), body=lower_value(target_stmt, rest_e), orelse=lower_value(target_stmt, clone(a_first)))
                return setup + [_at(node, like)]
            return [target_stmt(v)]

        # nested conditional expressions (inside calls, subscripts ...) -> temporaries, innermost first
        class H(ast.NodeTransformer):
            def __init__(self, top: ast.AST | None):
                self.top = top

            def visit_Lambda(self, n):  # noqa: N802
                return n

            visit_ListComp = visit_SetComp = visit_DictComp = visit_GeneratorExp = visit_Lambda

            def visit_BoolOp(self, n):  # noqa: N802  (only the first operand is evaluated unconditionally)
                n.values[0] = self.visit(n.values[0])
                return n

            def visit_IfExp(self, n: ast.IfExp):  # noqa: N802
                if n is self.top:
                    n.test = self.visit(n.test)
                    return n
                n.test = self.visit(n.test)
                tn = temp()
                pre.extend(lower_value(lambda v: _at(ast.Assign(targets=[_name(tn, True)], value=v, type_comment=None), like), n))
                return _at(_name(tn), n)

        if isinstance(st, (ast.Assign, ast.AnnAssign, ast.AugAssign, ast.Return, ast.Expr)) and getattr(st, "value", None) is not None:
            top = st.value if isinstance(st.value, (ast.IfExp, ast.BoolOp)) and not isinstance(st, (ast.Expr, ast.AugAssign)) else None
            if isinstance(top, ast.BoolOp):
                # only lower value-position and/or when an operand is not itself a plain truth value consumer
                pass
            st.value = H(top).visit(st.value)
            if top is not None and isinstance(st.value, (ast.IfExp, ast.BoolOp)):
                v = st.value
                if isinstance(st, ast.Assign):
                    mk = lambda x: _at(ast.Assign(targets=clone(st.targets), value=x, type_comment=None), like)  # noqa: E731
                elif isinstance(st, ast.AnnAssign):
                    mk = lambda x: _at(ast.Assign(targets=[clone(st.target)], value=x, type_comment=None), like)  # noqa: E731
                else:
                    mk = lambda x: _at(ast.Return(value=x), like)  # noqa: E731
                return pre + lower_value(mk, v)
            return pre + [st]
        if isinstance(st, ast.If):
            st.test = H(None).visit(st.test)
            return pre + [st]
        return [st]

    # -- driver -------------------------------------------------------------
    def _block(self, stmts: list[ast.stmt], selfname: str | None, depth: int) -> list[ast.stmt]:
        out: list[ast.stmt] = []
        for st in stmts:
            out.extend(self._stmt(st, selfname, depth))
        return out

    def _hoist_nested(self, e: ast.AST, selfname: str | None, depth: int, like: ast.AST) -> tuple[list[ast.stmt], ast.AST]:
        """statement helpers called anywhere in an expression, at a position that is evaluated unconditionally, are
        expanded before the statement (innermost first, in evaluation order); the call becomes the result name."""
        pre: list[ast.stmt] = []
        norm_ = self
        if depth <= 0:
            return pre, e

        class T(ast.NodeTransformer):
            def visit_Lambda(self, n):  # noqa: N802
                return n

            visit_ListComp = visit_SetComp = visit_DictComp = visit_GeneratorExp = visit_Lambda

            def visit_BoolOp(self, n):  # noqa: N802
                n.values[0] = self.visit(n.values[0])
                return n

            def visit_IfExp(self, n):  # noqa: N802
                n.test = self.visit(n.test)
                return n

            def visit_Call(self, n: ast.Call):  # noqa: N802
                self.generic_visit(n)
                r = norm_._helper_of(n, selfname)
                if r is not None and norm_.want(r[0], n) and r[0] is not norm_.fi and norm_._expr_body(r[0]) is None:
                    sp = norm_._splice(r[0], n, r[1], selfname, depth, like)
                    if sp is not None:
                        pre.extend(sp[0])
                        return _at(_name(sp[1]), n)
                return n

            def visit_Attribute(self, n: ast.Attribute):  # noqa: N802
                self.generic_visit(n)
                if isinstance(n.ctx, ast.Load):
                    p = norm_._property_of(n, selfname)
                    if p is not None and p is not norm_.fi and norm_.want(p) and norm_._expr_body(p) is None:
                        # a property whose getter is more than one expression: reading it runs the getter
                        fake = _at(ast.Call(func=n, args=[], keywords=[]), n)
                        sp = norm_._splice(p, fake, True, selfname, depth, like)
                        if sp is not None:
                            pre.extend(sp[0])
                            return _at(_name(sp[1]), n)
                return n

        new = T().visit(e)
        return pre, new

    def _stmt(self, st: ast.stmt, selfname: str | None, depth: int) -> list[ast.stmt]:
        if isinstance(st, (ast.FunctionDef, ast.AsyncFunctionDef, ast.ClassDef)):
            return [st]
        pre: list[ast.stmt] = []
        # compound statements: recurse into blocks, expand helpers in headers
        if isinstance(st, ast.If):
            st.test = self._expand_expr(st.test, selfname, depth)
            pre, st.test = self._hoist_nested(st.test, selfname, depth, st)
        elif isinstance(st, ast.While):
            st.test = self._expand_expr(st.test, selfname, depth)
            p2, t2 = self._hoist_nested(st.test, selfname, depth, st)
            if p2 and not st.orelse:
                # the test is re-evaluated on every round: while T -> while True: <helpers of T>; if not T: break
                st.body = p2 + [_at(ast.If(test=ast.UnaryOp(op=ast.Not(), operand=t2), body=[ast.Break()], orelse=[]), st)] + st.body
                st.test = _at(ast.Constant(value=True), st)
            elif not p2:
                st.test = t2
        elif isinstance(st, ast.For) and isinstance(st.iter, ast.Call) and dotted(st.iter.func) == "iter" and len(st.iter.args) == 2 and not st.iter.keywords and not st.orelse and isinstance(st.target, ast.Name):
            # iter(callable, sentinel): call until the sentinel comes back
            fn_, sentinel = st.iter.args
            take = _at(ast.Assign(targets=[_name(st.target.id, True)], value=ast.Call(func=fn_, args=[], keywords=[]), type_comment=None), st)
            stop_ = _at(ast.If(test=ast.Compare(left=_name(st.target.id), ops=[ast.Eq()], comparators=[sentinel]), body=[ast.Break()], orelse=[]), st)
            loop = _at(ast.While(test=ast.Constant(value=True), body=[take, stop_] + st.body, orelse=[]), st)
            return self._stmt(loop, selfname, depth)
        elif isinstance(st, ast.For) and isinstance(st.iter, (ast.Tuple, ast.List)) and 0 < len(st.iter.elts) <= 8 and all(isinstance(x, ast.Constant) for x in st.iter.elts) and not st.orelse and isinstance(st.target, ast.Name) and not any(isinstance(x, (ast.Break, ast.Continue)) for b_ in st.body for x in [b_, *walk_no_nested(b_)]):
            # a loop over a short literal list of constants is its body, once per constant
            out_: list[ast.stmt] = []
            for c_ in st.iter.elts:
                out_.append(_at(ast.Assign(targets=[_name(st.target.id, True)], value=clone(c_), type_comment=None), st))
                out_.extend(self._block([clone(b_) for b_ in st.body], selfname, depth))
            return out_
        elif isinstance(st, (ast.For, ast.AsyncFor)):
            st.iter = self._expand_expr(st.iter, selfname, depth)
            pre, st.iter = self._hoist_nested(st.iter, selfname, depth, st)
        elif isinstance(st, (ast.With, ast.AsyncWith)):
            for it in st.items:
                it.context_expr = self._expand_expr(it.context_expr, selfname, depth)
        if isinstance(st, ast.With) and len(st.items) == 1 and st.items[0].optional_vars is None and isinstance(st.items[0].context_expr, ast.Call) and (dotted(st.items[0].context_expr.func) or "").rsplit(".", 1)[-1] == "suppress" and st.items[0].context_expr.args and not st.items[0].context_expr.keywords:
            # contextlib.suppress(E1, E2): the body's exceptions of those types end the block silently
            excs = st.items[0].context_expr.args
            typ: ast.AST = excs[0] if len(excs) == 1 else ast.Tuple(elts=list(excs), ctx=ast.Load())
            st = _at(ast.Try(body=st.body, handlers=[ast.ExceptHandler(type=typ, name=None, body=[ast.Pass()])], orelse=[], finalbody=[]), st)
        if isinstance(st, (ast.If, ast.While, ast.For, ast.AsyncFor, ast.With, ast.AsyncWith, ast.Try)):
            inl = getattr(st, "_inlined_from", None)
            for fld in ("body", "orelse", "finalbody"):
                lst = getattr(st, fld, None)
                if isinstance(lst, list) and lst and isinstance(lst[0], ast.stmt):
                    setattr(st, fld, self._block(lst, selfname, depth))
            for hd in getattr(st, "handlers", []) or []:
                hd.body = self._block(hd.body, selfname, depth)
            if inl is not None:
                st._inlined_from = inl  # type: ignore[attr-defined]
            if isinstance(st, ast.If):
                return pre + self._hoist_conditionals(st, st)
            return pre + [st]
        # simple statements
        for fld in st._fields:
            v = getattr(st, fld, None)
            if isinstance(v, ast.expr):
                v = self._expand_expr(v, selfname, depth)
                if fld == "value" or isinstance(st, (ast.Raise, ast.Assert, ast.Delete)):
                    p2, v = self._hoist_nested(v, selfname, depth, st)
                    pre.extend(p2)
                setattr(st, fld, v)
            elif isinstance(v, list):
                setattr(st, fld, [self._expand_expr(x, selfname, depth) if isinstance(x, ast.expr) else x for x in v])
        if isinstance(st, ast.Expr) and isinstance(st.value, ast.Name) and st.value.id.startswith("_h") and st.value.id.endswith("_ret"):
            return pre
        if isinstance(st, (ast.Assign, ast.AnnAssign)) and isinstance(st.value, ast.Call) and depth > 0:
            tg = st.targets[0] if isinstance(st, ast.Assign) and len(st.targets) == 1 else st.target if isinstance(st, ast.AnnAssign) else None
            if isinstance(tg, ast.Attribute) and isinstance(st.value.func, ast.Name) and st.value.func.id in self.fi.module.classes:
                # self._state = K(a, b): build the object under a temporary name (running K.__init__ on it), then store it
                k0 = self.fi.module.classes[st.value.func.id]
                if k0 is not self.fi.cls and _is_record_class(k0) and "__init__" in k0.methods and self._inlinable_body(k0.methods["__init__"]) is None:
                    self.counter += 1
                    tmp = f"_o{self.counter}"
                    self._object_class[tmp] = k0
                    made = _at(ast.Assign(targets=[_name(tmp, True)], value=st.value, type_comment=None), st)
                    st.value = _at(_name(tmp), st)
                    return pre + self._stmt(made, selfname, depth) + [st]
            if isinstance(tg, ast.Name) and tg.id in self._object_class:
                k = self._record_class_of(st.value)
                init = k.methods.get("__init__") if k is not None and isinstance(st.value.func, ast.Name) else None
                if init is not None and self._inlinable_body(init) is None:
                    # x = K(a, b): a new object, then K.__init__(x, a, b)
                    call = st.value
                    st.value = _at(ast.Call(func=ast.Attribute(value=clone(call.func), attr="__new__", ctx=ast.Load()), args=[clone(call.func)], keywords=[]), call)
                    fake = _at(ast.Call(func=ast.Attribute(value=_name(tg.id), attr="__init__", ctx=ast.Load()), args=call.args, keywords=call.keywords), call)
                    self._receiver[id(fake)] = tg.id
                    sp = self._splice(init, fake, True, selfname, depth, st)
                    if sp is not None:
                        return pre + [st] + sp[0]
        low = self._hoist_conditionals(st, st)
        if len(low) == 1 and low[0] is st:
            return pre + low
        # the branches made from a conditional value are statements of their own: helpers called in them are expanded there
        out: list[ast.stmt] = []
        for r in low:
            if isinstance(r, ast.If):
                r.body = self._block(r.body, selfname, depth)
                r.orelse = self._block(r.orelse, selfname, depth)
                out.append(r)
            elif r is st:
                out.append(r)
            else:
                out.extend(self._stmt(r, selfname, depth))
        return pre + out

    def run(self) -> "NFunc":
        fn = clone(self.fi.node)
        params = self.fi.params
        selfname = params[0] if self.fi.cls is not None and params and not any(d.endswith("staticmethod") for d in self.fi.decorators) else None
        set_parents(fn)
        self._scan_locals(fn, selfname)
        self._scan_records(fn)
        self._scan_records(fn)  # a second round: `part = part.charged(...)` needs `part` to be known already
        self._resolve_callable_aliases(fn)
        fn.body = self._block(fn.body, selfname, self.depth)
        ast.fix_missing_locations(fn)
        set_parents(fn)
        fn._parent = None
        nfi = FuncInfo(self.fi.module, fn, self.fi.qualname, self.fi.cls)
        nf = NFunc(self.fi, nfi, self.inlined, self.refused, selfname)
        nf.object_class = dict(self._object_class)
        return nf


class NFunc:
    """a normalised function: original FuncInfo, the canonical copy (as FuncInfo), what was expanded into it."""

    def __init__(self, orig: FuncInfo, fi: FuncInfo, inlined: list[FuncInfo], refused: list[tuple[FuncInfo, str]], selfname: str | None):
        self.orig = orig
        self.fi = fi
        self.inlined = inlined
        self.refused = refused
        self.selfname = selfname
        self.object_class: dict[str, ClassInfo] = {}
        self.cfg = CFG(fi.node)

    @property
    def node(self) -> ast.AST:
        return self.fi.node


def normalise(repo, fi: FuncInfo, want: t.Callable[[FuncInfo], bool] | None = None, depth: int = 3, cross_module: bool = False) -> NFunc:
    return Normaliser(repo, fi, want, depth, cross_module).run()


def invariant_env(nf: NFunc, node: Node) -> dict[str, ast.AST]:
    """locals whose only definition reaching `node` (along every path, loops included) is a plain alias
    `x = self.attr` / `x = param` / `x = constant` made before: their value, for paths that start at `node`."""
    rd = ReachingDefs(nf.cfg, nf.fi.params)
    params = set(nf.fi.params)
    names = {x.id for x in walk_no_nested(nf.node) if isinstance(x, ast.Name) and isinstance(x.ctx, ast.Store)}

    def resolve(name: str, at: Node, depth: int) -> ast.AST | None:
        defs = rd.reaching(at, name)
        if len(defs) != 1:
            return None
        d = next(iter(defs))
        if d.kind == "param":
            return ast.Name(id=name, ctx=ast.Load())
        if d.kind != "assign" or d.index is not None or d.value is None or d.node is None or not _simple_arg(d.value):
            return None
        v = clone(d.value)
        root = v
        chain = []
        while isinstance(root, ast.Attribute):
            chain.append(root)
            root = root.value
        if isinstance(root, ast.Name) and root.id != nf.selfname:
            if depth >= 4:
                return None
            inner = resolve(root.id, d.node, depth + 1)
            if inner is None:
                return None if root.id in names or root.id in params else v
            if chain:
                chain[-1].value = inner
            else:
                v = inner
        return v

    out: dict[str, ast.AST] = {}
    for nm in sorted(names - params):
        v = resolve(nm, node, 0)
        if v is not None:
            out[nm] = v
    return out


def mentions(names: t.Iterable[str]) -> t.Callable[[FuncInfo], bool]:
    """helper filter: expand a helper only if its body mentions one of the identifiers (attribute or name) or,
    transitively through helpers of the same class / module, calls one that does."""
    wanted = set(names)
    cache: dict[int, bool] = {}

    def direct(h: FuncInfo, seen: frozenset[int]) -> bool:
        if id(h) in cache:
            return cache[id(h)]
        hit = False
        for x in ast.walk(h.node):
            if (isinstance(x, ast.Attribute) and x.attr in wanted) or (isinstance(x, ast.Name) and x.id in wanted):
                hit = True
                break
        if not hit and len(seen) < 4:
            for c in ast.walk(h.node):
                if isinstance(c, ast.Call):
                    sub = None
                    if isinstance(c.func, ast.Attribute) and isinstance(c.func.value, ast.Name) and h.cls is not None and h.params and c.func.value.id == h.params[0]:
                        sub = h.cls.methods.get(c.func.attr)
                    elif isinstance(c.func, ast.Name):
                        sub = h.module.functions.get(c.func.id)
                    if sub is not None and id(sub) not in seen and sub is not h and direct(sub, seen | {id(h)}):
                        hit = True
                        break
        cache[id(h)] = hit
        return hit

    def relevant(h: FuncInfo, call: ast.Call | None = None) -> bool:
        if direct(h, frozenset()):
            return True
        if call is not None:
            for x in ast.walk(call):
                if x is not call.func and ((isinstance(x, ast.Attribute) and x.attr in wanted) or (isinstance(x, ast.Name) and x.id in wanted)):
                    return True
        return False

    relevant._takes_call = True  # type: ignore[attr-defined]
    return relevant


def both(*preds: t.Callable[..., bool]) -> t.Callable[..., bool]:
    """conjunction of helper filters (each may or may not look at the call)."""

    def f(h: FuncInfo, call: ast.Call | None = None) -> bool:
        for p in preds:
            ok = p(h, call) if getattr(p, "_takes_call", False) else p(h)
            if not ok:
                return False
        return True

    f._takes_call = True  # type: ignore[attr-defined]
    return f


# ---------------------------------------------------------------------
# integer linear forms and canonical atoms


class Lin:
    """sum(coeff * term) + const over opaque terms (keyed by normalised text)."""

    __slots__ = ("terms", "const")

    def __init__(self, terms: dict[str, int] | None = None, const: int = 0):
        self.terms = {k: v for k, v in (terms or {}).items() if v != 0}
        self.const = const

    def __add__(self, o: "Lin") -> "Lin":
        d = dict(self.terms)
        for k, v in o.terms.items():
            d[k] = d.get(k, 0) + v
        return Lin(d, self.const + o.const)

    def scale(self, c: int) -> "Lin":
        return Lin({k: v * c for k, v in self.terms.items()}, self.const * c)

    def __sub__(self, o: "Lin") -> "Lin":
        return self + o.scale(-1)

    def shift(self, c: int) -> "Lin":
        return Lin(self.terms, self.const + c)

    def is_const(self) -> bool:
        return not self.terms

    def same_terms(self, o: "Lin") -> bool:
        return self.terms == o.terms

    def key(self) -> str:
        parts = [f"{v:+d}*{k}" for k, v in sorted(self.terms.items())]
        return " ".join(parts) + f" {self.const:+d}"

    def __repr__(self) -> str:
        return f"Lin({self.key()})"


def lin(e: ast.AST | None) -> Lin | None:
    """linear form of an integer expression; any non-arithmetic sub-expression is an opaque term."""
    if e is None:
        return None
    if isinstance(e, ast.Constant):
        if isinstance(e.value, bool) or not isinstance(e.value, int):
            return None
        return Lin({}, e.value)
    if isinstance(e, ast.UnaryOp) and isinstance(e.op, ast.USub):
        a = lin(e.operand)
        return a.scale(-1) if a is not None else None
    if isinstance(e, ast.UnaryOp) and isinstance(e.op, ast.UAdd):
        return lin(e.operand)
    if isinstance(e, ast.BinOp) and isinstance(e.op, (ast.Add, ast.Sub)):
        a, b = lin(e.left), lin(e.right)
        if a is None or b is None:
            return None
        return a + b if isinstance(e.op, ast.Add) else a - b
    if isinstance(e, ast.BinOp) and isinstance(e.op, ast.Mult):
        a, b = lin(e.left), lin(e.right)
        if a is not None and b is not None:
            if a.is_const():
                return b.scale(a.const)
            if b.is_const():
                return a.scale(b.const)
        return Lin({norm(e): 1})
    if isinstance(e, (ast.Name, ast.Attribute, ast.Call, ast.Subscript, ast.BinOp)):
        return Lin({norm(e): 1})
    return None


def _sized(term: str) -> str | None:
    """X for the term text `len(X)` (one call spanning the whole term)."""
    if not (term.startswith("len(") and term.endswith(")")):
        return None
    depth = 0
    for i, ch in enumerate(term):
        if ch in "([{":
            depth += 1
        elif ch in ")]}":
            depth -= 1
            if depth == 0 and i != len(term) - 1:
                return None
    inner = term[4:-1]
    return inner if inner and depth == 0 else None


def ge0_atom(f: Lin) -> tuple[str, bool] | bool:
    """canonical (key, polarity) of `f >= 0` over the integers (or a bool when f is constant).
    `f >= 0` and `-f - 1 >= 0` are complementary: the orientation whose first term has a positive coefficient is the key."""
    if f.is_const():
        return f.const >= 0
    first = sorted(f.terms.items())[0][1]
    if first > 0:
        pos, pol = f, True
    else:
        pos, pol = f.scale(-1).shift(-1), False
    # len(X) - 1 >= 0  is the truth value of X
    if len(pos.terms) == 1 and pos.const == -1:
        (k, v), = pos.terms.items()
        s = _sized(k)
        if v == 1 and s is not None:
            return s, pol
    key = "GE0: " + pos.key()
    _LIN_OF_KEY[key] = pos
    return key, pol


def eq0_atom(f: Lin) -> tuple[str, bool] | bool:
    if f.is_const():
        return f.const == 0
    first = sorted(f.terms.items())[0][1]
    pos = f if first > 0 else f.scale(-1)
    if len(pos.terms) == 1 and pos.const == 0:
        (k, v), = pos.terms.items()
        s = _sized(k)
        if s is not None:
            return s, False
    key = "EQ0: " + pos.key()
    _LIN_OF_KEY[key] = pos
    return key, True


def canon_atom(e: ast.AST) -> tuple[str, bool] | bool:
    """canonical (key, polarity) of a condition atom whose names have already been substituted; a bool when decided."""
    if isinstance(e, ast.UnaryOp) and isinstance(e.op, ast.Not):
        r = canon_atom(e.operand)
        if isinstance(r, bool):
            return not r
        return r[0], not r[1]
    if isinstance(e, ast.Constant):
        return bool(e.value)
    if isinstance(e, ast.Compare) and len(e.ops) == 1:
        a, op, b = e.left, e.ops[0], e.comparators[0]
        if isinstance(op, (ast.Eq, ast.NotEq)) and isinstance(a, ast.Constant) and isinstance(b, ast.Constant) and type(a.value) is type(b.value):
            return (a.value == b.value) == isinstance(op, ast.Eq)
        if isinstance(op, (ast.Eq, ast.NotEq)):
            for u, w in ((a, b), (b, a)):
                empty = (isinstance(w, ast.Constant) and isinstance(w.value, (bytes, str)) and len(w.value) == 0) or (isinstance(w, (ast.Tuple, ast.List)) and not w.elts)
                if empty and not isinstance(u, ast.Constant):
                    return norm(u), not isinstance(op, ast.Eq)  # equal to the empty value of its own type: falsy
        if isinstance(op, (ast.Lt, ast.LtE, ast.Gt, ast.GtE, ast.Eq, ast.NotEq)):
            la, lb = lin(a), lin(b)
            if la is not None and lb is not None:
                d = la - lb
                if isinstance(op, ast.GtE):
                    return ge0_atom(d)
                if isinstance(op, ast.Gt):
                    return ge0_atom(d.shift(-1))
                if isinstance(op, ast.LtE):
                    return ge0_atom(d.scale(-1))
                if isinstance(op, ast.Lt):
                    return ge0_atom(d.scale(-1).shift(-1))
                r = eq0_atom(d)
                if isinstance(r, bool):
                    return r if isinstance(op, ast.Eq) else not r
                return (r[0], r[1]) if isinstance(op, ast.Eq) else (r[0], not r[1])
        if isinstance(op, (ast.In, ast.NotIn)) and isinstance(b, ast.Call) and isinstance(b.func, ast.Attribute) and b.func.attr == "keys" and not b.args and not b.keywords:
            # `k in d.keys()` is `k in d`
            return canon_atom(ast.Compare(left=a, ops=[op], comparators=[b.func.value]))
        if isinstance(op, (ast.Is, ast.IsNot)):
            A, B = norm(a), norm(b)
            same: bool | None = None
            if A == B and isinstance(a, (ast.Name, ast.Attribute, ast.Constant)):
                same = True
            elif _is_fresh_object(a) and isinstance(b, (ast.Name, ast.Constant)) or _is_fresh_object(b) and isinstance(a, (ast.Name, ast.Constant)):
                same = False
            elif isinstance(a, ast.Constant) and isinstance(b, ast.Constant):
                same = a.value is b.value
            elif isinstance(b, ast.Constant) and b.value is None and _never_none(a):
                same = False
            if same is not None:
                return same if isinstance(op, ast.Is) else not same
    if isinstance(e, ast.Call) and dotted(e.func) == "len" and len(e.args) == 1 and not e.keywords:
        return norm(e.args[0]), True
    if isinstance(e, ast.Call) and dotted(e.func) == "bool" and len(e.args) == 1 and not e.keywords:
        return canon_atom(e.args[0])
    return text_canon(e)


def record_fields(k: ClassInfo) -> list[tuple[str, ast.AST | None]]:
    """(field, default) of a dataclass / NamedTuple-like record class, in declaration order."""
    out = []
    for st in k.node.body:
        if isinstance(st, ast.AnnAssign) and isinstance(st.target, ast.Name) and "ClassVar" not in norm(st.annotation):
            out.append((st.target.id, st.value))
    return out


def field_of(base: ast.AST, attr: str, module: t.Any) -> ast.AST | None:
    """value of `<base>.<attr>` when base is the construction of a record (`K(a, b, f=c)` without a hand-written __init__)
    or a copy with replaced fields (`x._replace(f=v)`, `dataclasses.replace(x, f=v)`)."""
    if not isinstance(base, ast.Call):
        return None
    f = base.func
    if isinstance(f, ast.Attribute) and f.attr == "_replace" and not base.args:
        for kw in base.keywords:
            if kw.arg == attr:
                return kw.value
        return ast.Attribute(value=f.value, attr=attr, ctx=ast.Load())
    if (dotted(f) or "").rsplit(".", 1)[-1] == "replace" and len(base.args) == 1 and dotted(f) in ("replace", "dataclasses.replace"):
        for kw in base.keywords:
            if kw.arg == attr:
                return kw.value
        return ast.Attribute(value=base.args[0], attr=attr, ctx=ast.Load())
    name = (dotted(f) or "").rsplit(".", 1)[-1]
    k = module.classes.get(name) if module is not None else None
    if k is None or "__init__" in k.methods or not _is_record_class(k) or any(isinstance(a, ast.Starred) for a in base.args) or any(kw.arg is None for kw in base.keywords):
        return None
    fields = record_fields(k)
    names = [n for n, _ in fields]
    if attr not in names:
        return None
    for kw in base.keywords:
        if kw.arg == attr:
            return kw.value
    i = names.index(attr)
    if i < len(base.args):
        return base.args[i]
    return fields[i][1]


def fold_access(e: ast.AST, module: t.Any) -> ast.AST:
    """(a, b)[1] -> b ; K(x, y).f -> the field ; x._replace(f=v).f -> v   (bottom-up)"""

    class T(ast.NodeTransformer):
        def visit_Subscript(self, n: ast.Subscript):  # noqa: N802
            self.generic_visit(n)
            if isinstance(n.slice, ast.Constant) and isinstance(n.slice.value, int) and not isinstance(n.slice.value, bool) and isinstance(n.value, (ast.Tuple, ast.List)) and not any(isinstance(x, ast.Starred) for x in n.value.elts) and -len(n.value.elts) <= n.slice.value < len(n.value.elts):
                return n.value.elts[n.slice.value]
            return n

        def visit_Attribute(self, n: ast.Attribute):  # noqa: N802
            self.generic_visit(n)
            v = field_of(n.value, n.attr, module)
            return v if v is not None else n

    return T().visit(e)


def _is_record_ctor(e: ast.Call) -> bool:
    d = (dotted(e.func) or "").rsplit(".", 1)[-1]
    return bool(d) and (d[:1].isupper() or d.lstrip("_")[:1].isupper()) and not any(isinstance(a, ast.Starred) for a in e.args)


def _is_fresh_object(e: ast.AST) -> bool:
    if isinstance(e, (ast.List, ast.Dict, ast.Set)):
        return True  # a display builds a new container
    return isinstance(e, ast.Call) and (dotted(e.func) or "").rsplit(".", 1)[-1] in ("bytearray", "BytesIO", "list", "dict", "memoryview", "LimitedStream")


def _never_none(e: ast.AST) -> bool:
    if _is_fresh_object(e):
        return True
    if isinstance(e, ast.Call) and (dotted(e.func) or "").rsplit(".", 1)[-1].lstrip("_")[:1].isupper():
        return True  # the construction of an object
    if isinstance(e, ast.Call) and (dotted(e.func) or "").rsplit(".", 1)[-1] in ("len", "min", "max", "int", "bytes", "abs", "_plain_int", "bytearray", "str"):
        return True
    if isinstance(e, ast.Constant):
        return e.value is not None
    if isinstance(e, (ast.BinOp, ast.Tuple, ast.List, ast.Dict, ast.Set, ast.JoinedStr, ast.Compare, ast.Lambda)):
        return True
    return False


Cond = t.Tuple[str, bool]


def _clamp_arg(term: str) -> Lin | None:
    """A (as a linear form) when the term text is `max(A, 0)` / `max(0, A)`."""
    if not term.startswith("max("):
        return None
    try:
        e = ast.parse(term, mode="eval").body
    except SyntaxError:
        return None
    if isinstance(e, ast.Call) and dotted(e.func) == "max" and len(e.args) == 2 and not e.keywords and norm(e) == term:
        a, b = e.args
        if isinstance(a, ast.Constant) and a.value == 0 and not isinstance(a.value, bool):
            return lin(b)
        if isinstance(b, ast.Constant) and b.value == 0 and not isinstance(b.value, bool):
            return lin(a)
    return None


def _resolve_clamps(f: Lin, conds: list[Cond]) -> Lin:
    """max(A, 0) is A where the path knows it to be non-zero, 0 where it knows it to be zero."""
    out = f
    cm = dict(conds)
    for term, coeff in list(f.terms.items()):
        inner = _clamp_arg(term)
        if inner is None:
            continue
        tv = cm.get(term)
        if tv is None and cm.get(f"EQ0: +1*{term} +0") is not None:
            tv = not cm[f"EQ0: +1*{term} +0"]
        if tv is None and cm.get(f"GE0: +1*{term} -1") is not None:
            tv = cm[f"GE0: +1*{term} -1"]
        if tv is True:
            out = out + Lin({term: -coeff}) + inner.scale(coeff)
        elif tv is False:
            out = out + Lin({term: -coeff})
    return out


def _minmax_args(term: str) -> tuple[str, list[Lin]] | None:
    if not term.startswith(("min(", "max(")):
        return None
    try:
        e = ast.parse(term, mode="eval").body
    except SyntaxError:
        return None
    if isinstance(e, ast.Call) and dotted(e.func) in ("min", "max") and len(e.args) >= 2 and not e.keywords and norm(e) == term:
        ls_ = [lin(a) for a in e.args]
        if all(x is not None for x in ls_):
            return dotted(e.func), ls_  # type: ignore[return-value]
    return None


def implies_ge0(conds: t.Iterable[Cond], f: Lin, _depth: int = 0) -> bool:
    """do the path conditions guarantee f >= 0 ?  (one atom at a time: f dominates a form known to be >= 0;
    -min(x, y) >= -x and +max(x, y) >= x give lower bounds of f to try)"""
    conds = list(conds)
    f = _resolve_clamps(f, conds)
    if f.is_const():
        return f.const >= 0
    if _depth < 3:
        for term, coeff in f.terms.items():
            mm = _minmax_args(term)
            if mm is None:
                continue
            kind, args = mm
            if (kind == "min" and coeff < 0) or (kind == "max" and coeff > 0):
                for a in args:
                    if implies_ge0(conds, f + Lin({term: -coeff}) + a.scale(coeff), _depth + 1):
                        return True
    for k, v in conds:
        for g in _known_ge0(k, v):
            d = f - _resolve_clamps(g, conds)
            if d.is_const() and d.const >= 0:
                return True
    return False


_LIN_OF_KEY: dict[str, Lin] = {}


def _parse_key(k: str) -> Lin | None:
    return _LIN_OF_KEY.get(k)


def _known_ge0(k: str, v: bool) -> list[Lin]:
    """linear forms known to be >= 0 when atom k has truth value v."""
    if k.startswith("GE0: "):
        g = _parse_key(k)
        if g is None:
            return []
        out_ = [g] if v else [g.scale(-1).shift(-1)]
        if len(g.terms) == 1 and g.const == -1:
            (tm, c), = g.terms.items()
            inner = _clamp_arg(tm)
            if c == 1 and inner is not None:  # max(A, 0) >= 1  <=>  A >= 1
                out_.append(inner.shift(-1) if v else inner.scale(-1))
        return out_
    if k.startswith("EQ0: "):
        g = _parse_key(k)
        if g is None or not v:
            return []
        return [g, g.scale(-1)]
    # truth value of a sized X:  len(X) - 1 >= 0  /  -len(X) >= 0
    try:
        e = ast.parse(k, mode="eval").body
    except SyntaxError:
        return []
    if isinstance(e, (ast.Name, ast.Attribute, ast.Subscript, ast.Call)) and norm(e) == k:
        inner = _clamp_arg(k)
        if inner is not None:  # truth value of max(A, 0): A >= 1 / A <= 0
            return [inner.shift(-1)] if v else [inner.scale(-1)]
        t_ = Lin({f"len({k})": 1})
        out = [t_.shift(-1)] if v else [t_.scale(-1)]
        # an int-valued term tested for truth: falsy means == 0
        if not v:
            out += [Lin({k: 1}), Lin({k: -1})]
        return out
    return []


def implies_le(conds: t.Iterable[Cond], a: ast.AST | Lin, b: ast.AST | Lin) -> bool:
    la = a if isinstance(a, Lin) else lin(a)
    lb = b if isinstance(b, Lin) else lin(b)
    if la is None or lb is None:
        return False
    return implies_ge0(list(conds), lb - la)


def ieval(e: ast.AST, env: dict[str, int]) -> int | bool | None:
    """value of a small pure integer / boolean expression under env (term text -> int); None = not evaluable."""
    k = norm(e)
    if k in env:
        return env[k]
    if isinstance(e, ast.Constant):
        return e.value if isinstance(e.value, (int, bool)) else None
    if isinstance(e, ast.UnaryOp):
        v = ieval(e.operand, env)
        if v is None:
            return None
        if isinstance(e.op, ast.USub):
            return -v
        if isinstance(e.op, ast.UAdd):
            return +v
        if isinstance(e.op, ast.Not):
            return not v
        return None
    if isinstance(e, ast.BinOp):
        a, b = ieval(e.left, env), ieval(e.right, env)
        if a is None or b is None:
            return None
        try:
            if isinstance(e.op, ast.Add):
                return a + b
            if isinstance(e.op, ast.Sub):
                return a - b
            if isinstance(e.op, ast.Mult):
                return a * b
            if isinstance(e.op, ast.FloorDiv):
                return a // b
            if isinstance(e.op, ast.Mod):
                return a % b
        except ZeroDivisionError:
            return None
        return None
    if isinstance(e, ast.Compare):
        left = ieval(e.left, env)
        if left is None:
            return None
        for op, c in zip(e.ops, e.comparators):
            r = ieval(c, env)
            if r is None:
                return None
            ok = {ast.Lt: left < r, ast.LtE: left <= r, ast.Gt: left > r, ast.GtE: left >= r, ast.Eq: left == r, ast.NotEq: left != r}.get(type(op))
            if ok is None:
                return None
            if not ok:
                return False
            left = r
        return True
    if isinstance(e, ast.BoolOp):
        vals = [ieval(v, env) for v in e.values]
        if any(v is None for v in vals):
            return None
        if isinstance(e.op, ast.And):
            for v in vals:
                if not v:
                    return v
            return vals[-1]
        for v in vals:
            if v:
                return v
        return vals[-1]
    if isinstance(e, ast.IfExp):
        c = ieval(e.test, env)
        if c is None:
            return None
        return ieval(e.body if c else e.orelse, env)
    if isinstance(e, ast.Call) and dotted(e.func) in ("max", "min", "abs", "int") and not e.keywords:
        vals = [ieval(a, env) for a in e.args]
        if any(v is None for v in vals) or not vals:
            return None
        f = dotted(e.func)
        if f == "abs" and len(vals) == 1:
            return abs(vals[0])
        if f == "int" and len(vals) == 1:
            return int(vals[0])
        if f in ("max", "min") and len(vals) >= 2:
            return max(vals) if f == "max" else min(vals)
    return None


# ---------------------------------------------------------------------
# symbolic path enumeration

PURE_FUNCS = {
    "len", "min", "max", "abs", "int", "bool", "isinstance", "hasattr", "getattr", "bytes", "bytearray", "memoryview", "str",
    "cast", "tuple", "list", "dict", "set", "frozenset", "sorted", "partial", "repeat", "count", "replace", "repr", "type", "id", "_plain_int", "get_content_length", "range",
}
PURE_METHODS = {"_replace", "get", "keys", "values", "items", "copy", "startswith", "endswith", "lower", "upper", "strip", "decode", "encode", "group", "start", "end", "join", "fullmatch", "match", "search", "find", "rfind", "index", "rindex", "partition", "rpartition", "split", "splitlines", "count", "tell", "readable"}
MUTATORS = {"extend", "append", "insert", "clear", "pop", "remove", "update", "add", "discard", "write", "seek", "truncate", "sort", "reverse", "setdefault", "popitem", "__iadd__", "__setitem__", "__delitem__"}


def _fx(n: t.Any) -> t.Any:
    n.lineno = n.col_offset = 0
    return ast.fix_missing_locations(n)


def symname(k: int | None) -> str:
    """name of the opaque result of the k-th impure call on a path (a valid identifier no source uses)."""
    return f"\u03a3{k}"


def vername(key: str, k: int) -> str:
    """name of the value a location holds after it was invalidated by event k."""
    return f"{key}\u00b7{k}"


class Ev(t.NamedTuple):
    k: int | None  # number of the opaque result symbol (symname(k)) (None for pure calls)
    node: Node
    call: ast.AST  # the call (or store) with substituted operands
    raw: ast.AST  # the AST node of the analysed function
    kind: str  # 'call' | 'store' | 'iter' | 'del'
    ncond: int  # number of path conditions established before this event


class Path:
    def __init__(self) -> None:
        self.conds: list[tuple[str, bool, Node]] = []
        self.events: list[Ev] = []
        self.steps: list[Node] = []
        self.outcome = "?"
        self.value: ast.AST | None = None
        self.end: Node | None = None
        self.env: dict[str, ast.AST] = {}
        self.at: dict[int, tuple[int, int, dict[str, ast.AST]]] = {}
        self.infeasible = False

    def cset(self, upto: int | None = None) -> set[Cond]:
        return {(k, v) for k, v, _ in (self.conds if upto is None else self.conds[:upto])}

    def val(self, key: str) -> bool | None:
        for k, v, _ in self.conds:
            if k == key:
                return v
        return None

    def truth(self, e: ast.AST | None) -> bool | None:
        """truth value of a (substituted) boolean expression on this path: a constant, or an atom the path decided."""
        if e is None:
            return None
        if isinstance(e, ast.Constant):
            return bool(e.value) if isinstance(e.value, (bool, int)) or e.value is None else None
        c = canon_atom(e)
        if isinstance(c, bool):
            return c
        v = self.val(c[0])
        return None if v is None else (v == c[1])

    def calls(self, pred: t.Callable[[Ev], bool]) -> list[Ev]:
        return [e for e in self.events if pred(e)]

    def raised(self) -> str | None:
        if self.outcome != "raise" or self.value is None:
            return None
        e = self.value
        if isinstance(e, ast.Call):
            e = e.func
        d = dotted(e)
        return d.rsplit(".", 1)[-1] if d else None

    def describe(self) -> str:
        cs = ", ".join(f"{'' if v else 'not '}{k}" for k, v, _ in self.conds)
        out = self.outcome + (f" {norm(self.value)}" if self.value is not None else "")
        return f"[{cs}] -> {out}"


class _State:
    __slots__ = ("env", "conds", "cmap", "events", "steps", "counter", "epoch", "at", "seen", "seen2", "visits")

    def __init__(self) -> None:
        self.env: dict[str, ast.AST] = {}
        self.conds: list[tuple[str, bool, Node]] = []
        self.cmap: dict[str, bool] = {}
        self.events: list[Ev] = []
        self.steps: list[Node] = []
        self.counter = 0
        self.epoch = 0
        self.at: dict[int, tuple[int, int, dict[str, ast.AST]]] = {}
        self.seen: frozenset[int] = frozenset()
        self.seen2: frozenset[tuple[int, int]] = frozenset()
        self.visits: dict[int, int] = {}

    def fork(self) -> "_State":
        s = _State()
        s.env = dict(self.env)
        s.conds = list(self.conds)
        s.cmap = dict(self.cmap)
        s.events = list(self.events)
        s.steps = list(self.steps)
        s.counter = self.counter
        s.epoch = self.epoch
        s.at = dict(self.at)
        s.seen = self.seen
        s.seen2 = self.seen2
        s.visits = self.visits
        return s


def class_writes(cls: ClassInfo | None) -> dict[str, set[str] | None]:
    """method name -> self attributes it may rebind or mutate (transitively through self-calls)."""
    if cls is None:
        return {}
    direct: dict[str, set[str]] = {}
    callees: dict[str, set[str]] = {}
    for name, fi in cls.methods.items():
        sn = fi.params[0] if fi.params else "self"
        w: set[str] = set()
        cs: set[str] = set()
        if any(d.endswith("staticmethod") for d in fi.decorators):
            direct[name] = w
            callees[name] = cs
            continue
        # locals that are plain aliases of a chain rooted at self: `state = self._state`
        alias: dict[str, str] = {}
        counts: dict[str, int] = {}
        for x in ast.walk(fi.node):
            if isinstance(x, ast.Name) and isinstance(x.ctx, ast.Store):
                counts[x.id] = counts.get(x.id, 0) + 1
        for x in ast.walk(fi.node):
            if isinstance(x, ast.Assign) and len(x.targets) == 1 and isinstance(x.targets[0], ast.Name) and counts.get(x.targets[0].id) == 1:
                d_ = dotted(x.value)
                if d_ and d_.startswith(sn + ".") and isinstance(x.value, ast.Attribute):
                    alias[x.targets[0].id] = d_

        def chain(x: ast.AST) -> str | None:
            d_ = dotted(x)
            if not d_:
                return None
            root, _, rest = d_.partition(".")
            if root in alias and rest:
                d_ = alias[root] + "." + rest
                root, _, rest = d_.partition(".")
            return rest if root == sn and rest else None

        for x in ast.walk(fi.node):
            if isinstance(x, ast.Attribute):
                path = chain(x)
                if path is None:
                    continue
                p = getattr(x, "_parent", None)
                if isinstance(x.ctx, (ast.Store, ast.Del)):
                    w.add(path)
                elif isinstance(p, ast.Subscript) and p.value is x and isinstance(p.ctx, (ast.Store, ast.Del)):
                    w.add(path)
                elif isinstance(p, ast.Attribute) and p.value is x and isinstance(getattr(p, "_parent", None), ast.Call) and getattr(p, "_parent").func is p and p.attr in MUTATORS:
                    w.add(path)
                elif isinstance(p, ast.Call) and p.func is x and "." not in path:
                    cs.add(x.attr)
        direct[name] = w
        callees[name] = cs
    allw: set[str] = set().union(*[v for k, v in direct.items() if k != "__init__"]) if direct else set()
    stored: set[str] = set().union(*direct.values()) if direct else set()
    out: dict[str, set[str] | None] = {}
    for name in cls.methods:
        acc: set[str] = set()
        seen: set[str] = set()
        stack = [name]
        unknown = False
        while stack:
            m = stack.pop()
            if m in seen:
                continue
            seen.add(m)
            if m not in direct:
                if m in stored:
                    continue  # `self.factory(...)`: a callable kept in an attribute, it has no access to self
                unknown = True
                continue
            acc |= direct[m]
            stack.extend(callees[m])
        out[name] = allw if unknown else acc
    out["*"] = allw
    return out


def _truth_subject(key: str) -> str | None:
    """the term X when key is `X` (truth value), `X is None` or `X == 0`."""
    if key.endswith(" is None"):
        return key[: -len(" is None")]
    if key.startswith("EQ0: +1*") and key.endswith(" +0") and " +1*" not in key[8:] and " -1*" not in key[8:]:
        return key[len("EQ0: +1*"): -len(" +0")]
    if key.startswith(("GE0: ", "EQ0: ", "EXC", "ITER")) or " is " in key or " in " in key or " == " in key or " < " in key:
        return None
    return key


def truth_of(cmap: t.Mapping[str, bool], term: str) -> bool | None:
    """what the path knows about the truth value of an int-or-None term: falsy <=> None or 0."""
    t_ = cmap.get(term)
    isnone = cmap.get(f"{term} is None")
    iszero = cmap.get(f"EQ0: +1*{term} +0")
    if t_ is not None:
        return t_
    if isnone is True or iszero is True:
        return False
    if isnone is False and iszero is False:
        return True
    return None


def _truth_conflict(cmap: dict[str, bool], key: str, val: bool) -> bool:
    x = _truth_subject(key)
    if x is None:
        return False
    m = dict(cmap)
    m[key] = val
    t_, isnone, iszero = m.get(x), m.get(f"{x} is None"), m.get(f"EQ0: +1*{x} +0")
    if t_ is True and (isnone is True or iszero is True):
        return True
    if t_ is False and isnone is False and iszero is False:
        return True
    if isnone is True and iszero is True:
        return True
    return False


_ISINST = re.compile(r"^isinstance\((.+?), (\([\w., ]+\)|[\w.]+)\)$")


class Sym:
    def __init__(self, nf: NFunc, pure: t.Iterable[str] = (), impure: t.Iterable[str] = (), repo: t.Any = None):
        self.nf = nf
        self.repo = repo
        self._mro_cache: dict[str, set[str] | None] = {}
        self.cfg = nf.cfg
        self.selfname = nf.selfname
        self.pure = (set(PURE_FUNCS) | set(pure)) - set(impure)
        self.impure = set(impure)
        self.writes = class_writes(nf.orig.cls)

    # -- private sentinels: `X = object()` at class / module level is identical to nothing but itself --------------
    def _sentinels(self) -> set[str]:
        if getattr(self, "_sent", None) is None:
            out: set[str] = set()
            cls = self.nf.orig.cls
            if cls is not None and self.selfname:
                for k, v in cls.attrs.items():
                    if isinstance(v, ast.Call) and dotted(v.func) == "object" and not v.args and not v.keywords:
                        out.add(f"{self.selfname}.{k}")
                        out.add(f"{cls.name}.{k}")
            for k, vs in self.nf.orig.module.assigns.items():
                if vs and isinstance(vs[-1], ast.Call) and dotted(vs[-1].func) == "object" and not vs[-1].args:
                    out.add(k)
            self._sent = out
        return self._sent

    def alternatives(self, e: ast.AST, depth: int = 0) -> list[tuple[list[tuple[str, bool]], bool]]:
        """the ways a (substituted) condition can be decided: (atom truth values assumed, resulting truth value).
        and / or / not and the compound spellings of _CanonCond are taken apart, with short-circuit order."""
        if depth == 0:
            e = _CanonCond().visit(clone(e))
        if isinstance(e, ast.UnaryOp) and isinstance(e.op, ast.Not):
            return [(c, not t_) for c, t_ in self.alternatives(e.operand, depth + 1)]
        if isinstance(e, ast.BoolOp):
            is_and = isinstance(e.op, ast.And)
            acc: list[tuple[list[tuple[str, bool]], bool]] = [([], is_and)]
            for v in e.values:
                nxt: list[tuple[list[tuple[str, bool]], bool]] = []
                for c, t_ in acc:
                    if t_ != is_and:  # already decided (short circuit)
                        nxt.append((c, t_))
                        continue
                    for c2, t2 in self.alternatives(v, depth + 1):
                        keys = dict(c)
                        if any(k in keys and keys[k] != val for k, val in c2):
                            continue
                        nxt.append((c + [x for x in c2 if x[0] not in keys], t2))
                acc = nxt
                if len(acc) > 64:
                    raise AnalysisError(f"{self.nf.orig.fq}: condition with too many cases")
            return acc
        c = self.decide(e)
        if isinstance(c, bool):
            return [([], c)]
        key, pol = c
        return [([(key, True)], pol), ([(key, False)], not pol)]

    def decide(self, atom: ast.AST) -> tuple[str, bool] | bool:
        """canonical atom of a substituted condition, using what the function's context tells (sentinels, globals)."""
        c = self._sentinel_identity(atom)
        if c is not None:
            return c
        neg = False
        a = atom
        while isinstance(a, ast.UnaryOp) and isinstance(a.op, ast.Not):
            a, neg = a.operand, not neg
        if isinstance(a, ast.Compare) and len(a.ops) == 1 and isinstance(a.ops[0], (ast.Is, ast.IsNot, ast.Eq, ast.NotEq)):
            x, y = a.left, a.comparators[0]
            dx, dy = dotted(x), dotted(y)
            if dx and dy and "." in dx and "." in dy and dx.rsplit(".", 1)[0] == dy.rsplit(".", 1)[0] and self._is_enum(dx.rsplit(".", 1)[0]):
                same = dx == dy  # two members of one Enum
                return (same == isinstance(a.ops[0], (ast.Is, ast.Eq))) != neg
        if isinstance(a, ast.Compare) and len(a.ops) == 1 and isinstance(a.ops[0], (ast.Is, ast.IsNot)):
            x, y = a.left, a.comparators[0]
            pos = isinstance(a.ops[0], ast.Is)
            for u, w in ((x, y), (y, x)):
                # a class / function / module named at module level is not None
                if isinstance(w, ast.Constant) and w.value is None and isinstance(u, ast.Name) and u.id not in self._locals() and not u.id.startswith(("\u03a3", "exc\u03a3")) and "\u00b7" not in u.id and u.id != self.selfname:
                    return (not pos) != neg
                # d.get(k, S) is S  (S a private sentinel)  <=>  k not in d
                if isinstance(u, ast.Call) and isinstance(u.func, ast.Attribute) and u.func.attr == "get" and len(u.args) == 2 and not u.keywords and norm(u.args[1]) == norm(w) and (norm(w) in self._sentinels() or (isinstance(w, ast.Name) and w.id not in self._locals() and not w.id.startswith("\u03a3"))):
                    r = canon_atom(ast.Compare(left=u.args[0], ops=[ast.NotIn() if pos else ast.In()], comparators=[u.func.value]))
                    if isinstance(r, bool):
                        return r != neg
                    return r[0], (r[1] != neg)
        return canon_atom(atom)

    def _is_enum(self, name: str) -> bool:
        k = self.nf.orig.module.classes.get(name.rsplit(".", 1)[-1])
        return k is not None and any((dotted(b) or "").rsplit(".", 1)[-1] in ("Enum", "IntEnum", "StrEnum", "Flag") for b in k.node.bases)

    def _sentinel_identity(self, atom: ast.AST) -> bool | None:
        neg = False
        while isinstance(atom, ast.UnaryOp) and isinstance(atom.op, ast.Not):
            atom, neg = atom.operand, not neg
        if not (isinstance(atom, ast.Compare) and len(atom.ops) == 1 and isinstance(atom.ops[0], (ast.Is, ast.IsNot))):
            return None
        a, b = norm(atom.left), norm(atom.comparators[0])
        sent = self._sentinels()
        if not ({a, b} & sent):
            return None
        if a == b:
            same = True
        else:
            other = atom.comparators[0] if a in sent else atom.left
            if norm(other) in sent or isinstance(other, (ast.Constant, ast.Call, ast.BinOp, ast.Tuple, ast.List, ast.Dict)) or (isinstance(other, ast.Name) and other.id.startswith("\u03a3")):
                same = False  # a value that came from elsewhere (a call result, a constant, another sentinel)
            else:
                return None
        res = same if isinstance(atom.ops[0], ast.Is) else not same
        return (not res) if neg else res

    # -- class exclusivity: one object is not an instance of two unrelated classes of the package --------------
    def _ancestry(self, name: str) -> set[str] | None:
        if name in self._mro_cache:
            return self._mro_cache[name]
        res: set[str] | None = None
        if self.repo is not None:
            try:
                fq = self.repo.resolve(self.nf.orig.module, name)
                ci = self.repo.try_cls(fq) if fq and fq.startswith("werkzeug") else None
                if ci is not None:
                    res = {k.fq for k in self.repo.mro(ci)}
            except AnalysisError:
                res = None
        self._mro_cache[name] = res
        return res

    def _classes_of(self, key: str) -> tuple[str, list[str]] | None:
        m = _ISINST.match(key)
        if not m:
            return None
        names = [x.strip() for x in m.group(2).strip("()").split(",") if x.strip()]
        return m.group(1), names

    def _disjoint(self, a: list[str], b: list[str]) -> bool:
        """no class of a is related (either way) to a class of b."""
        for x in a:
            ax = self._ancestry(x)
            if ax is None:
                return False
            for y in b:
                ay = self._ancestry(y)
                if ay is None:
                    return False
                fx = next(iter(ax & {f for f in ax if f.endswith("." + x.rsplit(".", 1)[-1])}), None)
                fy = next(iter(ay & {f for f in ay if f.endswith("." + y.rsplit(".", 1)[-1])}), None)
                if fx is None or fy is None or fx in ay or fy in ax:
                    return False
        return True

    def type_conflict(self, cmap: dict[str, bool], key: str, val: bool) -> bool:
        if not val or self.repo is None:
            return False
        me = self._classes_of(key)
        if me is None:
            return False
        for k2, v2 in cmap.items():
            if not v2 or k2 == key:
                continue
            other = self._classes_of(k2)
            if other is not None and other[0] == me[0] and self._disjoint(me[1], other[1]):
                return True
        return False

    # -- expressions -------------------------------------------------------
    def _self_key(self, e: ast.AST) -> str | None:
        if self.selfname and isinstance(e, ast.Attribute) and isinstance(e.value, ast.Name) and e.value.id == self.selfname:
            return f"{self.selfname}.{e.attr}"
        return None

    def _class_constant(self, attr: str) -> ast.AST | None:
        """the value of `self._X` when _X is a private class-level constant (number / string / None / tuple of those) that no
        method assigns.  Public class attributes are configuration: instances and subclasses override them."""
        cls = self.nf.orig.cls
        if cls is None or not attr.startswith("_") or attr not in cls.attrs or attr in (self.writes.get("*") or set()) or attr in (self.writes.get("__init__") or set()):
            return None
        v = cls.attrs[attr]
        ok = isinstance(v, ast.Constant) or (isinstance(v, ast.UnaryOp) and isinstance(v.operand, ast.Constant)) or (isinstance(v, ast.Tuple) and all(isinstance(x, ast.Constant) for x in v.elts))
        return clone(v) if ok else None

    def _module_constant(self, name: str) -> ast.AST | None:
        """a module-level tuple / list of constants bound once to a private or upper-case name (a table of keys)."""
        vs = self.nf.orig.module.assigns.get(name)
        if not vs or len(vs) != 1 or not (name.startswith("_") or name.isupper()):
            return None
        v = vs[0]
        if isinstance(v, (ast.Tuple, ast.List)) and v.elts and all(isinstance(x, ast.Constant) for x in v.elts):
            return clone(v)
        if isinstance(v, ast.Constant) and isinstance(v.value, (int, str, bytes)) and not isinstance(v.value, bool):
            return clone(v)  # a named number / string
        return None

    def _locals(self) -> set[str]:
        if getattr(self, "_loc", None) is None:
            self._loc = set(self.nf.fi.params) | {x.id for x in walk_no_nested(self.nf.node) if isinstance(x, ast.Name) and isinstance(x.ctx, ast.Store)}
            self._loc.discard(self.selfname or "")
        return self._loc

    def _obj_key(self, e: ast.AST) -> str | None:
        """`state.held` for a local object `state` (a small record the function keeps its per-round state in)."""
        if isinstance(e, ast.Attribute) and isinstance(e.value, ast.Name) and e.value.id != self.selfname and e.value.id in self._locals():
            return f"{e.value.id}.{e.attr}"
        return None

    def _path_key(self, base: ast.AST | None, attr: str) -> str | None:
        """location key of `<base>.<attr>` when base (already evaluated) is a stable reference: a chain of attributes
        rooted at self (`self._state.pos`, also through a local alias `state = self._state`), or an object known only
        by name (an opaque result, a local whose value is not known)."""
        d = dotted(base) if base is not None else None
        if not d:
            return None
        root = d.split(".", 1)[0]
        if root == self.selfname and "." in d:
            return f"{d}.{attr}"
        if isinstance(base, ast.Name) and (root.startswith("\u03a3") or "\u00b7" in root or root in self._locals()):
            return f"{d}.{attr}"
        return None

    def _forget_object(self, name: str, st: _State, k: int) -> None:
        for key in [x for x in st.env if x.startswith(name + ".")]:
            st.env[key] = ast.Name(id=vername(key, k), ctx=ast.Load())

    def ev(self, e: ast.AST | None, st: _State, node: Node) -> ast.AST | None:
        if e is None:
            return None
        if isinstance(e, ast.Name):
            if isinstance(e.ctx, ast.Load) and e.id in st.env:
                return clone(st.env[e.id])
            if isinstance(e.ctx, ast.Load) and e.id not in self._locals():
                mv = self._module_constant(e.id)
                if mv is not None:
                    return mv
            return ast.Name(id=e.id, ctx=ast.Load())
        if isinstance(e, ast.Constant):
            return ast.Constant(value=e.value)
        if isinstance(e, (ast.DictComp, ast.ListComp)) and len(e.generators) == 1 and not e.generators[0].ifs and not e.generators[0].is_async and isinstance(e.generators[0].target, ast.Name):
            # a comprehension over a literal sequence of constants is its unrolled form: {n: getattr(self, n) for n in ("a", "b")}
            seq = self.ev(e.generators[0].iter, st, node)
            if isinstance(seq, (ast.Tuple, ast.List)) and seq.elts and all(isinstance(x, ast.Constant) for x in seq.elts) and len(seq.elts) <= 16:
                var = e.generators[0].target.id
                saved = st.env.get(var)
                keys, vals = [], []
                for x in seq.elts:
                    st.env[var] = clone(x)
                    if isinstance(e, ast.DictComp):
                        keys.append(self.ev(e.key, st, node))
                        vals.append(self.ev(e.value, st, node))
                    else:
                        vals.append(self.ev(e.elt, st, node))
                if saved is None:
                    st.env.pop(var, None)
                else:
                    st.env[var] = saved
                return ast.Dict(keys=keys, values=vals) if isinstance(e, ast.DictComp) else ast.List(elts=vals, ctx=ast.Load())
        if isinstance(e, (ast.Lambda, ast.ListComp, ast.SetComp, ast.DictComp, ast.GeneratorExp)):
            return clone(e)
        if isinstance(e, ast.Call) and dotted(e.func) == "map" and len(e.args) == 2 and not e.keywords:
            seq = self.ev(e.args[1], st, node)
            if isinstance(seq, (ast.Tuple, ast.List)) and seq.elts and all(isinstance(x, ast.Constant) for x in seq.elts) and len(seq.elts) <= 16:
                return ast.List(elts=[self.ev(ast.Call(func=e.args[0], args=[x], keywords=[]), st, node) for x in seq.elts], ctx=ast.Load())
        if isinstance(e, ast.Call) and dotted(e.func) == "getattr" and len(e.args) == 2 and not e.keywords:
            name_ = self.ev(e.args[1], st, node)
            if isinstance(name_, ast.Constant) and isinstance(name_.value, str) and name_.value.isidentifier():
                return self.ev(ast.Attribute(value=e.args[0], attr=name_.value, ctx=ast.Load()), st, node)  # getattr(x, "a") is x.a
        if isinstance(e, ast.Attribute):
            sk = self._self_key(e)
            if sk is not None:
                if sk in st.env:
                    return clone(st.env[sk])
                if st.epoch:
                    return ast.Name(id=vername(sk, st.epoch), ctx=ast.Load())
                cv = self._class_constant(e.attr)
                if cv is not None:
                    return cv
                return ast.Attribute(value=ast.Name(id=self.selfname, ctx=ast.Load()), attr=e.attr, ctx=ast.Load())
            base = self.ev(e.value, st, node)
            pk = self._path_key(base, e.attr)
            if pk is not None and pk in st.env:
                return clone(st.env[pk])
            ok_ = self._obj_key(e)
            if ok_ is not None and ok_ in st.env:
                return clone(st.env[ok_])
            fv = field_of(base, e.attr, self.nf.orig.module)  # a record built / copied earlier on the path
            if fv is not None:
                return clone(fv)
            return ast.Attribute(value=base, attr=e.attr, ctx=ast.Load())
        if isinstance(e, ast.NamedExpr):
            v = self.ev(e.value, st, node)
            st.env[e.target.id] = v
            return clone(v)
        if isinstance(e, (ast.Yield, ast.YieldFrom)):
            v = self.ev(e.value, st, node) if e.value is not None else ast.Constant(value=None)
            st.counter += 1
            st.events.append(Ev(st.counter, node, v, e, "yield", len(st.conds)))  # what the generator hands to its consumer
            return ast.Name(id=symname(st.counter), ctx=ast.Load())
        if isinstance(e, ast.Call):
            return self._call(e, st, node)
        if isinstance(e, ast.Starred):
            return ast.Starred(value=self.ev(e.value, st, node), ctx=ast.Load())
        if isinstance(e, ast.Subscript) and isinstance(e.slice, ast.Constant) and isinstance(e.slice.value, int) and not isinstance(e.slice.value, bool):
            base = self.ev(e.value, st, node)
            if isinstance(base, (ast.Tuple, ast.List)) and not any(isinstance(x, ast.Starred) for x in base.elts) and -len(base.elts) <= e.slice.value < len(base.elts):
                return clone(base.elts[e.slice.value])  # (a, b)[1] is b
            return ast.Subscript(value=base, slice=ast.Constant(value=e.slice.value), ctx=ast.Load())
        new = e.__class__()
        for f in e._fields:
            v = getattr(e, f, None)
            if isinstance(v, ast.expr):
                setattr(new, f, self.ev(v, st, node))
            elif isinstance(v, list):
                setattr(new, f, [self.ev(x, st, node) if isinstance(x, ast.expr) else clone(x) for x in v])
            else:
                setattr(new, f, clone(v))
        return new

    def _is_pure(self, raw: ast.Call, func: ast.AST | None = None) -> bool:
        """decided on what the callee expression evaluates to (`get = environ.get; get(k)` is `environ.get(k)`)."""
        f = func if func is not None else raw.func
        d = dotted(f)
        last = d.rsplit(".", 1)[-1] if d else (f.attr if isinstance(f, ast.Attribute) else "")
        if last in self.impure:
            return False
        if isinstance(f, ast.Attribute) and self._self_key(f) is not None:
            return False  # a method of self: may do anything the class does
        if last in self.pure:
            return True
        if last.lstrip("_")[:1].isupper():
            return True  # constructor
        if isinstance(f, ast.Attribute) and last in PURE_METHODS:
            return True
        return False

    def _call(self, e: ast.Call, st: _State, node: Node) -> ast.AST:
        if (dotted(e.func) or "").rsplit(".", 1)[-1] == "cast" and len(e.args) == 2 and not e.keywords:
            return self.ev(e.args[1], st, node)  # typing.cast(T, x) is x
        if isinstance(e.func, ast.Attribute):
            sk = self._self_key(e.func)
            if sk is not None and sk in st.env:
                func: ast.AST = clone(st.env[sk])  # a callable the attribute is known to hold
            elif sk is not None:
                func = ast.Attribute(value=ast.Name(id=self.selfname, ctx=ast.Load()), attr=e.func.attr, ctx=ast.Load())
            else:
                func = ast.Attribute(value=self.ev(e.func.value, st, node), attr=e.func.attr, ctx=ast.Load())
        else:
            func = self.ev(e.func, st, node)
        args = []
        for a in e.args:
            v_ = self.ev(a, st, node)
            if isinstance(v_, ast.Starred) and isinstance(v_.value, (ast.Tuple, ast.List)) and not any(isinstance(x, ast.Starred) for x in v_.value.elts):
                args.extend(v_.value.elts)  # f(*(a, b)) is f(a, b)
            else:
                args.append(v_)
        kws: list[ast.keyword] = []
        for k in e.keywords:
            v = self.ev(k.value, st, node)
            if k.arg is None and isinstance(v, ast.Dict) and all(isinstance(x, ast.Constant) and isinstance(x.value, str) for x in v.keys):
                kws.extend(ast.keyword(arg=x.value, value=y) for x, y in zip(v.keys, v.values))  # type: ignore[union-attr]
            elif k.arg is None and isinstance(v, ast.Call) and dotted(v.func) == "dict" and not v.args and all(x.arg is not None for x in v.keywords):
                kws.extend(v.keywords)
            else:
                kws.append(ast.keyword(arg=k.arg, value=v))
        while isinstance(func, ast.Call) and (dotted(func.func) or "").rsplit(".", 1)[-1] == "partial" and func.args and not any(isinstance(x, ast.Starred) for x in func.args):
            args = list(func.args[1:]) + args  # functools.partial(f, a)(b) is f(a, b)
            kws = list(func.keywords) + kws
            func = func.args[0]
        if isinstance(func, ast.Attribute) and func.attr == "get" and len(args) == 2 and not kws and isinstance(args[1], ast.Constant) and args[1].value is None:
            args = args[:1]  # d.get(k, None) is d.get(k)
        call = ast.Call(func=func, args=args, keywords=kws)
        if self._is_pure(e, func):
            st.events.append(Ev(None, node, call, e, "call", len(st.conds)))
            return call
        st.counter += 1
        k_ = st.counter
        st.events.append(Ev(k_, node, call, e, "call", len(st.conds)))
        call._raw = e  # type: ignore[attr-defined]
        self._havoc(call, st, k_)
        return ast.Name(id=symname(k_), ctx=ast.Load())

    def _is_stored_callable(self, attr: str) -> bool:
        cls = self.nf.orig.cls
        if cls is None or self.repo is None:
            return False
        try:
            owner, what = self.repo.lookup(cls, attr)
        except AnalysisError:
            return False
        if isinstance(what, FuncInfo) or what == "builtin":
            return False
        # not a method anywhere in the MRO: it must be an instance attribute assigned somewhere in the class
        for fi in cls.methods.values():
            sn = fi.params[0] if fi.params else "self"
            for x in ast.walk(fi.node):
                if isinstance(x, ast.Attribute) and x.attr == attr and isinstance(x.ctx, ast.Store) and isinstance(x.value, ast.Name) and x.value.id == sn:
                    return True
        return what is not None  # a class-level attribute holding a callable

    def _bump(self, key: str, st: _State, k: int) -> None:
        st.env[key] = ast.Name(id=vername(key, k), ctx=ast.Load())

    def _havoc(self, call: ast.Call, st: _State, k: int) -> None:
        """effects of an impure call (given with substituted operands) on the tracked locations."""
        f = call.func
        raw = getattr(call, "_raw", None)
        if isinstance(raw, ast.Call):
            touched = [a.id for a in list(raw.args) + [kw.value for kw in raw.keywords] if isinstance(a, ast.Name)]
            if isinstance(raw.func, ast.Attribute) and isinstance(raw.func.value, ast.Name):
                k_ = self.nf.object_class.get(raw.func.value.id)
                if not (k_ is not None and raw.func.attr not in k_.methods):  # a callable kept in a field of the record does not see the record
                    touched.append(raw.func.value.id)
            for nm in touched:
                if nm != self.selfname and nm in self._locals():
                    self._forget_object(nm, st, k)
        if isinstance(f, ast.Attribute):
            sk = self._self_key(f)
            if sk is not None:  # self.m(...)
                w = self.writes.get(f.attr)
                if w is None and self._is_stored_callable(f.attr):
                    return  # `self.factory(...)`: a callable kept in an attribute, not a method: it has no access to self
                if w is None:
                    w = self.writes.get("*", set())
                for a in w or ():
                    self._bump(f"{self.selfname}.{a}", st, k)
                return
            recv = f.value
            rk = self._self_key(recv)
            if rk is None and isinstance(recv, ast.Name) and self.selfname and recv.id.startswith(self.selfname + ".") and "\u00b7" in recv.id:
                rk = recv.id.split("\u00b7")[0]  # a self attribute that was already invalidated once
            if rk is not None and f.attr in MUTATORS:  # self.x.extend(...)
                self._bump(rk, st, k)
            elif f.attr in MUTATORS:
                # a local container that is mutated: its symbolic value is no longer the constructor expression
                rtxt = norm(recv)
                for name, cur in list(st.env.items()):
                    if "." not in name and not isinstance(cur, ast.Name) and norm(cur) == rtxt and _is_fresh_object(cur):
                        st.env[name] = ast.Name(id=vername(name, k), ctx=ast.Load())

    # -- statements -----------------------------------------------------------
    def _assign(self, tg: ast.AST, v: ast.AST, st: _State, node: Node, raw: ast.AST) -> None:
        if isinstance(tg, ast.Name):
            for key in [x for x in st.env if x.startswith(tg.id + ".")]:
                del st.env[key]  # another object now
            st.env[tg.id] = v
        elif isinstance(tg, (ast.Tuple, ast.List)):
            if isinstance(v, (ast.Tuple, ast.List)) and len(v.elts) == len(tg.elts) and not any(isinstance(x, ast.Starred) for x in tg.elts + v.elts):
                for a, b in zip(tg.elts, v.elts):
                    self._assign(a, b, st, node, raw)
            else:
                for i, a in enumerate(tg.elts):
                    if isinstance(a, ast.Starred):
                        a = a.value
                    self._assign(a, ast.Subscript(value=clone(v), slice=ast.Constant(value=i), ctx=ast.Load()), st, node, raw)
        elif isinstance(tg, ast.Attribute):
            sk = self._self_key(tg)
            if sk is not None:
                st.env[sk] = v
            else:
                obj = self.ev(tg.value, st, node)
                pk = self._path_key(obj, tg.attr)
                ok_ = pk if pk is not None else self._obj_key(tg)
                if ok_ is not None:
                    st.env[ok_] = clone(v)
                st.events.append(Ev(None, node, _fx(ast.Assign(targets=[ast.Attribute(value=obj, attr=tg.attr, ctx=ast.Store())], value=clone(v), type_comment=None)), raw, "store", len(st.conds)))
        elif isinstance(tg, ast.Subscript):
            base = self.ev(tg.value, st, node)
            sl = self.ev(tg.slice, st, node)
            if isinstance(tg.value, ast.Name) and isinstance(base, ast.Dict) and isinstance(sl, ast.Constant) and all(isinstance(k_, ast.Constant) for k_ in base.keys):
                # d["k"] = v on a local dict whose keys are known: the dict with that entry set
                keys_ = [k_.value for k_ in base.keys]  # type: ignore[union-attr]
                nd = ast.Dict(keys=list(base.keys), values=list(base.values))
                if sl.value in keys_:
                    nd.values[keys_.index(sl.value)] = clone(v)
                else:
                    nd.keys.append(ast.Constant(value=sl.value))
                    nd.values.append(clone(v))
                st.env[tg.value.id] = nd
            st.events.append(Ev(None, node, _fx(ast.Assign(targets=[ast.Subscript(value=base, slice=sl, ctx=ast.Store())], value=clone(v), type_comment=None)), raw, "store", len(st.conds)))
            sk = self._self_key(tg.value)
            if sk is not None:
                st.counter += 1
                self._bump(sk, st, st.counter)

    def _exec(self, n: Node, st: _State) -> tuple[str, ast.AST | None] | None:
        a = n.ast
        if n.kind in ("entry", "join") or a is None:
            return None
        if n.kind == "handler":
            if isinstance(a, ast.ExceptHandler) and a.name:
                st.counter += 1
                st.env[a.name] = ast.Name(id=f"exc\u03a3{st.counter}", ctx=ast.Load())
            return None
        if n.kind == "with":
            for it in a.items:  # type: ignore[attr-defined]
                v = self.ev(it.context_expr, st, n)
                if it.optional_vars is not None:
                    self._assign(it.optional_vars, v, st, n, a)
            return None
        if isinstance(a, ast.Assign):
            v = self.ev(a.value, st, n)
            for tg in a.targets:
                self._assign(tg, clone(v), st, n, a)
        elif isinstance(a, ast.AnnAssign):
            if a.value is not None:
                self._assign(a.target, self.ev(a.value, st, n), st, n, a)
        elif isinstance(a, ast.AugAssign):
            load = clone(a.target)
            for x in ast.walk(load):
                if hasattr(x, "ctx"):
                    x.ctx = ast.Load()
            cur = self.ev(load, st, n)
            v = ast.BinOp(left=cur, op=a.op, right=self.ev(a.value, st, n))
            self._assign(a.target, v, st, n, a)
            if isinstance(a.target, (ast.Name, ast.Attribute)):
                st.events.append(Ev(None, n, _fx(ast.AugAssign(target=clone(a.target), op=a.op, value=clone(v.right))), a, "aug", len(st.conds)))
        elif isinstance(a, ast.Expr):
            self.ev(a.value, st, n)
        elif isinstance(a, ast.Return):
            return "return", self.ev(a.value, st, n)
        elif isinstance(a, ast.Raise):
            return "raise", self.ev(a.exc, st, n)
        elif isinstance(a, ast.Delete):
            for tg in a.targets:
                if isinstance(tg, ast.Subscript):
                    sk = self._self_key(tg.value)
                    base = self.ev(tg.value, st, n)
                    st.events.append(Ev(None, n, _fx(ast.Delete(targets=[ast.Subscript(value=base, slice=self.ev(tg.slice, st, n), ctx=ast.Del())])), a, "del", len(st.conds)))
                    if sk is not None:
                        st.counter += 1
                        self._bump(sk, st, st.counter)
                elif isinstance(tg, ast.Name):
                    st.env.pop(tg.id, None)
        elif isinstance(a, ast.Assert):
            pass
        return None

    # -- driver --------------------------------------------------------------------
    def paths(
        self,
        start: Node | None = None,
        stop: t.Callable[[Node], bool] | None = None,
        watch: t.Callable[[Node], bool] | None = None,
        exc: t.Callable[[Node], bool] | None = None,
        env0: dict[str, ast.AST] | None = None,
        max_paths: int = 6000,
        rounds: int = 1,
    ) -> list[Path]:
        """`rounds`: how many times a path may pass one node (2 = every loop body is gone through up to twice, so that what
        one round leaves behind - a flag, a test at the tail - is seen by the next)."""
        cfg = self.cfg
        out: list[Path] = []
        st0 = _State()
        if env0:
            st0.env.update(env0)
        first = start or cfg.entry
        stack: list[tuple[Node, _State]] = [(first, st0)]

        def finish(st: _State, outcome: str, value: ast.AST | None, end: Node | None) -> None:
            p = Path()
            p.conds, p.events, p.steps, p.env, p.at = st.conds, st.events, st.steps, st.env, st.at
            p.outcome, p.value, p.end = outcome, value, end
            out.append(p)
            if len(out) > max_paths:
                raise AnalysisError(f"{self.nf.orig.fq}: more than {max_paths} paths")

        def add_cond(st: _State, key: str, val: bool, n: Node) -> bool:
            """False when the condition contradicts the path."""
            if key in st.cmap:
                return st.cmap[key] == val
            # a value known to be None cannot take part in arithmetic / ordering
            if key.startswith(("GE0: ", "EQ0: ")):
                f = _LIN_OF_KEY.get(key)
                if f is not None and not (key.startswith("EQ0: ")):
                    for tm in f.terms:
                        if st.cmap.get(f"{tm} is None") is True:
                            return False
            elif key.endswith(" is None") and val:
                tm = key[: -len(" is None")]
                for k2 in st.cmap:
                    if k2.startswith("GE0: "):
                        f = _LIN_OF_KEY.get(k2)
                        if f is not None and tm in f.terms:
                            return False
            if self.type_conflict(st.cmap, key, val) or _truth_conflict(st.cmap, key, val):
                return False
            st.cmap[key] = val
            st.conds.append((key, val, n))
            return True

        while stack:
            n, st = stack.pop()
            if n is cfg.exit:
                finish(st, "fall", None, None)
                continue
            if n is cfg.raise_exit:
                finish(st, "raise", None, None)
                continue
            if n is not first or st.steps:
                if stop is not None and stop(n):
                    finish(st, "stop", None, n)
                    continue
            if n.id in st.seen and rounds > 1 and st.visits.get(n.id, 0) < rounds:
                st.visits = dict(st.visits)
                st.visits[n.id] = st.visits.get(n.id, 0) + 1
            elif n.id in st.seen:
                # back at a loop head: the loop condition is looked at once more under the state reached now; if that state
                # decides it (a flag that was set, a condition already on the path) the path goes on, otherwise it ends here
                if n.kind in ("join", "test") and (n.id, 2) not in st.seen2:
                    st.seen2 = st.seen2 | {(n.id, 2)}
                    if n.kind == "join":
                        for s, l in n.succs:
                            if l != "exc":
                                stack.append((s, st.fork()))
                        continue
                    atom = self.ev(n.ast, st, n)
                    c = self.decide(atom)
                    forced: bool | None = None
                    if isinstance(c, bool):
                        forced = c
                    elif c[0] in st.cmap:
                        forced = st.cmap[c[0]] == c[1]
                    if forced is None:
                        finish(st, "loop", None, n)
                        continue
                    st.steps.append(n)
                    for s in cfg.succ(n, "T" if forced else "F"):
                        stack.append((s, st.fork()))
                    continue
                finish(st, "loop", None, n)
                continue
            if n.id not in st.seen:
                st.visits = dict(st.visits)
                st.visits[n.id] = 1
            st.seen = st.seen | {n.id}
            if watch is not None and watch(n):
                st.at[n.id] = (len(st.conds), len(st.events), dict(st.env))
            st.steps.append(n)
            if exc is not None and exc(n):
                hs = [s for s, l in n.succs if l == "exc"]
                if hs:
                    # what the statement attempts (the call that raises) is recorded on the exceptional path as 'attempt'
                    scratch = st.fork()
                    try:
                        if n.kind == "test":
                            self.ev(n.ast, scratch, n)
                        elif n.kind == "stmt":
                            self._exec(n, scratch)
                    except AnalysisError:
                        pass
                    attempts = [Ev(e.k, e.node, e.call, e.raw, "attempt", e.ncond) for e in scratch.events[len(st.events):] if e.kind == "call"]
                for h in hs:
                    s2 = st.fork()
                    s2.events.extend(attempts)
                    s2.counter = scratch.counter
                    if add_cond(s2, f"EXC@{n.id}", True, n):
                        stack.append((h, s2))
            if n.kind == "test":
                atom = self.ev(n.ast, st, n)
                # after substitution the condition may turn out to be a compound (`count == size` with count = min(size, left)):
                # every way of deciding its atoms is one continuation
                for conds_, truth in self.alternatives(atom):
                    succs = cfg.succ(n, "T" if truth else "F")
                    if not succs:
                        continue
                    s2 = st.fork()
                    if not all(add_cond(s2, k_, v_, n) for k_, v_ in conds_):
                        continue
                    for s in succs:
                        stack.append((s, s2.fork() if len(succs) > 1 else s2))
                continue
            if n.kind == "loop":
                a = n.ast
                it = self.ev(a.iter, st, n)  # type: ignore[union-attr]
                it_name = (dotted(it.func) or "").rsplit(".", 1)[-1] if isinstance(it, ast.Call) else ""
                endless = (it_name == "repeat" and len(it.args) == 1 and not it.keywords) or (it_name == "count" and isinstance(it, ast.Call))  # type: ignore[union-attr]
                for lab in ("T", "F"):
                    succs = cfg.succ(n, lab)
                    if not succs or (endless and lab == "F"):
                        continue
                    s2 = st.fork()
                    if not add_cond(s2, f"ITER@{n.id}", lab == "T", n):
                        continue
                    if lab == "T":
                        s2.counter += 1
                        sym = clone(it.args[0]) if (endless and it_name == "repeat") else ast.Name(id=symname(s2.counter), ctx=ast.Load())  # type: ignore[union-attr]
                        s2.events.append(Ev(s2.counter, n, it, a, "iter", len(s2.conds)))
                        self._assign(a.target, sym, s2, n, a)  # type: ignore[union-attr]
                    for s in succs:
                        stack.append((s, s2))
                continue
            res = self._exec(n, st)
            if res is not None:
                kind, value = res
                finish(st, kind, value, n)
                continue
            nxt = [s for s, l in n.succs if l != "exc"]
            if not nxt:
                finish(st, "fall", None, n)
                continue
            for i, s in enumerate(nxt):
                stack.append((s, st.fork() if i < len(nxt) - 1 else st))
        return out
