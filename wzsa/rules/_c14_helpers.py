"""helpers for C14: reject-atom algebra for safe_join, provenance of sink arguments, abstract filename states."""

from __future__ import annotations

import ast
import typing as t

from .. import astq
from ..cfg import CFG, Node
from ..dataflow import Def, ReachingDefs, bound_in_enclosing_comp
from ..loader import AnalysisError, FuncInfo, Module, Repo, dotted, norm


# ---------------------------------------------------------------------
# analysis unit: one function body (top-level, method or nested def) with its CFG and reaching definitions


class Unit:
    def __init__(self, repo: Repo, owner: FuncInfo, node: ast.AST, label: str, untrusted: t.Iterable[str] = (), refusal: str = "none"):
        self.repo = repo
        self.owner = owner  # FuncInfo used for locations / finding keys
        self.node = node
        self.label = label
        self.module: Module = owner.module
        a = node.args  # type: ignore[attr-defined]
        self.params = [x.arg for x in a.posonlyargs + a.args + a.kwonlyargs] + ([a.vararg.arg] if a.vararg else []) + ([a.kwarg.arg] if a.kwarg else [])
        self.untrusted = set(untrusted)
        self.refusal = refusal  # "raise" (NotFound) | "none" (return None / (None, None))
        self.cfg = CFG(node)
        self.rd = ReachingDefs(self.cfg, self.params)
        self.local_imports = self.module.local_imports(owner.node)

    def resolve(self, e: ast.AST) -> str | None:
        d = dotted(e)
        if d is None:
            return None
        head = d.split(".")[0]
        # a local variable shadows module names
        return self.repo.resolve(self.module, d, self.local_imports) if not self._is_local(head) else None

    def _is_local(self, name: str) -> bool:
        if name in self.params:
            return True
        return any(d.name == name and d.kind not in ("import",) for ds in self.rd.gen.values() for d in ds)

    def inside(self, n: ast.AST, container: ast.AST) -> bool:
        cur: ast.AST | None = n
        while cur is not None:
            if cur is container:
                return True
            if cur is self.node:
                return False
            cur = astq.parent(cur)
        return False

    def lambda_param(self, name: ast.Name) -> bool:
        """is the Name bound by a lambda (or nested def) parameter between itself and the unit?"""
        cur = astq.parent(name)
        while cur is not None and cur is not self.node:
            if isinstance(cur, (ast.Lambda, ast.FunctionDef, ast.AsyncFunctionDef)):
                a = cur.args
                names = [x.arg for x in a.posonlyargs + a.args + a.kwonlyargs] + ([a.vararg.arg] if a.vararg else []) + ([a.kwarg.arg] if a.kwarg else [])
                if name.id in names:
                    return True
            cur = astq.parent(cur)
        return False


def own_nodes(fn: ast.AST, through_lambdas: bool = True) -> t.Iterator[ast.AST]:
    """nodes of fn's body; descends into lambdas (their bodies are evaluated with the enclosing
    statement's bindings) but not into nested def / class bodies."""
    stack = list(ast.iter_child_nodes(fn))
    while stack:
        n = stack.pop()
        yield n
        if isinstance(n, (ast.FunctionDef, ast.AsyncFunctionDef, ast.ClassDef)):
            continue
        if isinstance(n, ast.Lambda) and not through_lambdas:
            continue
        stack.extend(ast.iter_child_nodes(n))


def nested_defs(fn: ast.AST) -> list[ast.FunctionDef]:
    return [n for n in own_nodes(fn) if isinstance(n, (ast.FunctionDef, ast.AsyncFunctionDef))]


# ---------------------------------------------------------------------
# safe_join: atoms of the reject test


class Atom(t.NamedTuple):
    node: Node  # CFG test node whose edge decides
    reject: str  # label of the rejecting edge of that node ("T"/"F")
    kind: str  # eq | in | prefix | isabs | altsep
    consts: tuple[str, ...]
    var: ast.Name  # occurrence of the tested variable (evaluated in `node`)
    text: str
    normal: bool = True  # the tested value is normpath(<loop element>) (or the empty string) on every path

    @property
    def passlabel(self) -> str:
        return "F" if self.reject == "T" else "T"

    def covers(self, what: str) -> bool:
        if what == "abs":  # every string that starts with "/"
            return self.kind == "isabs" or (self.kind == "prefix" and any("/".startswith(p) for p in self.consts))
        if what == "dotdot":  # the string ".."
            return (self.kind in ("eq", "in") and ".." in self.consts) or (self.kind == "prefix" and any("..".startswith(p) for p in self.consts))
        if what == "dotdot/":  # every string that starts with "../"
            return self.kind == "prefix" and any("../".startswith(p) for p in self.consts)
        if what == "altsep":
            return self.kind == "altsep"
        raise KeyError(what)


def _str_consts(e: ast.AST) -> tuple[str, ...] | None:
    if isinstance(e, ast.Constant) and isinstance(e.value, str):
        return (e.value,)
    if isinstance(e, (ast.Tuple, ast.List, ast.Set)) and e.elts and all(isinstance(x, ast.Constant) and isinstance(x.value, str) for x in e.elts):
        return tuple(x.value for x in e.elts)  # type: ignore[attr-defined]
    return None


def parse_atom(unit: Unit, e: ast.AST) -> tuple[str, tuple[str, ...], str, ast.Name] | None:
    """(kind, consts, label of the edge on which the predicate holds, tested Name) or None when the shape is unknown."""
    if isinstance(e, ast.Compare) and len(e.ops) == 1:
        a, op, b = e.left, e.ops[0], e.comparators[0]
        if isinstance(op, (ast.Eq, ast.NotEq)):
            if isinstance(b, ast.Name) and _str_consts(a) and isinstance(a, ast.Constant):
                a, b = b, a
            if isinstance(a, ast.Name) and isinstance(b, ast.Constant) and isinstance(b.value, str):
                return "eq", (b.value,), "T" if isinstance(op, ast.Eq) else "F", a
        if isinstance(op, (ast.In, ast.NotIn)) and isinstance(a, ast.Name) and not isinstance(b, ast.Constant):
            cs = _str_consts(b)
            if cs:
                return "in", cs, "T" if isinstance(op, ast.In) else "F", a
        return None
    if isinstance(e, ast.Call):
        f = e.func
        if isinstance(f, ast.Attribute) and f.attr == "startswith" and isinstance(f.value, ast.Name) and len(e.args) == 1 and not e.keywords:
            cs = _str_consts(e.args[0])
            if cs:
                return "prefix", cs, "T", f.value
            return None
        fq = unit.resolve(f)
        if fq in ("os.path.isabs", "posixpath.isabs") and len(e.args) == 1 and isinstance(e.args[0], ast.Name):
            return "isabs", (), "T", e.args[0]
        if fq == "builtins.any" and len(e.args) == 1 and isinstance(e.args[0], (ast.GeneratorExp, ast.ListComp)):
            g = e.args[0]
            if len(g.generators) == 1 and not g.generators[0].ifs and isinstance(g.generators[0].target, ast.Name):
                tv = g.generators[0].target.id
                c = g.elt
                if isinstance(c, ast.Compare) and len(c.ops) == 1 and isinstance(c.ops[0], ast.In) and astq.is_name(c.left, tv) and isinstance(c.comparators[0], ast.Name):
                    it = g.generators[0].iter
                    fqi = unit.resolve(it)
                    if fqi and _is_alt_seps(unit.repo, fqi):
                        return "altsep", (fqi,), "T", c.comparators[0]
        return None
    return None


def _is_alt_seps(repo: Repo, fq: str) -> bool:
    """a module-level constant built from os.sep and os.path.altsep."""
    mn, _, nm = fq.rpartition(".")
    m = repo.modules.get(mn)
    if m is None or nm not in m.assigns:
        return False
    seen = set()
    for v in m.assigns[nm]:
        for n in ast.walk(v):
            d = dotted(n) if isinstance(n, ast.Attribute) else None
            if d:
                seen.add(repo.resolve(m, d))
    return {"os.sep", "os.path.altsep"} <= seen


def or_atoms(e: ast.AST) -> list[ast.AST]:
    if isinstance(e, ast.BoolOp) and isinstance(e.op, ast.Or):
        out: list[ast.AST] = []
        for v in e.values:
            out += or_atoms(v)
        return out
    return [e]


# ---------------------------------------------------------------------
# provenance of sink arguments


class Prov:
    """SAFE = built only from constants, trusted names (configuration, closure variables of the enclosing
    factory) and results of safe_join(<SAFE directory>, ...); the request-derived names of the unit are not SAFE."""

    def __init__(self, unit: Unit, is_safe_join: t.Callable[[ast.Call], bool]):
        self.u = unit
        self.is_safe_join = is_safe_join

    def safe(self, e: ast.AST | None, node: Node | None, depth: int = 0) -> tuple[bool, str]:
        if e is None:
            return True, ""
        if depth > 8:
            return False, "definition chain too deep"
        if isinstance(e, ast.Constant):
            return True, ""
        if isinstance(e, ast.Call) and self.is_safe_join(e):
            if not e.args or isinstance(e.args[0], ast.Starred):
                return False, f"`{norm(e)}` has no positional base directory"
            ok, why = self.safe(e.args[0], node, depth + 1)
            return ok, (f"base directory of `{norm(e)}`: {why}" if not ok else "")
        if isinstance(e, ast.Name):
            return self._name(e, node, depth)
        if isinstance(e, ast.Lambda):
            return self.safe(e.body, node, depth + 1)
        for ch in ast.iter_child_nodes(e):
            if isinstance(ch, (ast.expr_context, ast.operator, ast.cmpop, ast.boolop, ast.unaryop)):
                continue
            if isinstance(ch, (ast.comprehension, ast.keyword)):
                for sub in ast.iter_child_nodes(ch):
                    if isinstance(sub, ast.expr) and not (isinstance(sub, ast.Name) and isinstance(sub.ctx, ast.Store)):
                        ok, why = self.safe(sub, node, depth)
                        if not ok:
                            return ok, why
                continue
            ok, why = self.safe(ch, node, depth)
            if not ok:
                return ok, why
        return True, ""

    def _name(self, e: ast.Name, node: Node | None, depth: int) -> tuple[bool, str]:
        u = self.u
        if u.lambda_param(e):
            return False, f"`{e.id}` is the parameter of a callable invoked with request data"
        g = bound_in_enclosing_comp(e, u.node)
        if g is not None:
            return self.safe(g.iter, node, depth + 1)
        defs = u.rd.reaching(node, e.id) if node is not None else frozenset()
        if not defs:
            if e.id in u.untrusted:
                return False, f"`{e.id}` is request-derived"
            return True, ""  # closure variable of the enclosing factory / module name
        for d in sorted(defs, key=lambda d: getattr(d.stmt, "lineno", 0)):
            ok, why = self._def(d, depth)
            if not ok:
                return False, why
        return True, ""

    def _def(self, d: Def, depth: int) -> tuple[bool, str]:
        if d.kind == "param":
            if d.name in self.u.untrusted:
                return False, f"`{d.name}` is the request-derived parameter"
            return True, ""
        if d.kind in ("import", "def", "except", "del"):
            return True, ""
        if d.value is None:
            return False, f"`{d.name}` bound by an uninterpreted {d.kind}"
        ok, why = self.safe(d.value, d.node, depth + 1)
        if ok and d.kind == "aug" and d.node is not None:
            for p in self.u.rd.reaching(d.node, d.name):
                if p is d:
                    continue
                ok, why = self._def(p, depth + 1)
                if not ok:
                    break
        if not ok:
            return False, f"`{d.name}` <- `{norm(d.value)[:70]}`: {why}" if why and not why.startswith(f"`{d.name}` <-") else (why or f"`{d.name}` <- `{norm(d.value)[:70]}`")
        return True, ""
