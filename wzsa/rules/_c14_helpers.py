"""helpers for C14: reject-atom algebra for safe_join, provenance of sink arguments, abstract filename states."""

from __future__ import annotations

import ast
import typing as t

from .. import astq
from ..cfg import CFG, Node
from ..dataflow import Def, ReachingDefs, bound_in_enclosing_comp
from ..loader import FuncInfo, Module, Repo, dotted, norm


# ---------------------------------------------------------------------
# analysis unit: one function body (top-level, method or nested def) with its CFG and reaching definitions


class Unit:
    def __init__(self, repo: Repo, owner: FuncInfo, node: ast.AST, label: str, untrusted: t.Iterable[str] = (), refusal: str = "none", enclosing: "Unit | None" = None):
        self.repo = repo
        self.enclosing = enclosing  # the unit whose body defines this callable (its locals are our free variables)
        self.owner = owner  # FuncInfo used for locations / finding keys
        self.node = node
        self.label = label
        self.module: Module = owner.module
        a = node.args  # type: ignore[attr-defined]
        self.params = [x.arg for x in a.posonlyargs + a.args + a.kwonlyargs] + ([a.vararg.arg] if a.vararg else []) + ([a.kwarg.arg] if a.kwarg else [])
        # kind of the value a caller binds to each parameter (trusted / safejoined / unsafe, see Prov); helper units
        # get theirs from the arguments at their call sites
        self.param_kind: dict[str, str] = {p: ("unsafe" if p in set(untrusted) else "trusted") for p in self.params}
        self._free_untrusted = set(untrusted) - set(self.params)
        self.null_params: set[str] = set()  # parameters a caller may bind to a possibly-None safe_join result
        self.refusal = refusal  # "raise" (NotFound) | "none" (return None / (None, None)) | "either" (helpers)
        self.helper = False  # analysed because a root unit calls it: its return value is judged at the call sites
        self.cfg = CFG(node)
        self.rd = ReachingDefs(self.cfg, self.params)
        self.local_imports = self.module.local_imports(owner.node)

    @property
    def untrusted(self) -> set[str]:
        return {p for p, k in self.param_kind.items() if k == "unsafe"} | self._free_untrusted

    def resolve(self, e: ast.AST) -> str | None:
        d = dotted(e)
        if d is None:
            return None
        head = d.split(".")[0]
        # a local variable shadows module names
        return self.repo.resolve(self.module, d, self.local_imports) if not self._is_local(head) else None

    def _is_local(self, name: str) -> bool:
        if name in self.params:
            return True
        return any(d.name == name and d.kind not in ("import",) for ds in self.rd.gen.values() for d in ds)

    def inside(self, n: ast.AST, container: ast.AST) -> bool:
        cur: ast.AST | None = n
        while cur is not None:
            if cur is container:
                return True
            if cur is self.node:
                return False
            cur = astq.parent(cur)
        return False

    def lambda_param(self, name: ast.Name) -> bool:
        """is the Name bound by a lambda (or nested def) parameter between itself and the unit?"""
        cur = astq.parent(name)
        while cur is not None and cur is not self.node:
            if isinstance(cur, (ast.Lambda, ast.FunctionDef, ast.AsyncFunctionDef)):
                a = cur.args
                names = [x.arg for x in a.posonlyargs + a.args + a.kwonlyargs] + ([a.vararg.arg] if a.vararg else []) + ([a.kwarg.arg] if a.kwarg else [])
                if name.id in names:
                    return True
            cur = astq.parent(cur)
        return False


def own_nodes(fn: ast.AST, through_lambdas: bool = True) -> t.Iterator[ast.AST]:
    """nodes of fn's body; descends into lambdas (their bodies are evaluated with the enclosing
    statement's bindings) but not into nested def / class bodies."""
    stack = list(ast.iter_child_nodes(fn))
    while stack:
        n = stack.pop()
        yield n
        if isinstance(n, (ast.FunctionDef, ast.AsyncFunctionDef, ast.ClassDef)):
            continue
        if isinstance(n, ast.Lambda) and not through_lambdas:
            continue
        stack.extend(ast.iter_child_nodes(n))


def nested_defs(fn: ast.AST) -> list[ast.FunctionDef]:
    return [n for n in own_nodes(fn) if isinstance(n, (ast.FunctionDef, ast.AsyncFunctionDef))]


# ---------------------------------------------------------------------
# safe_join: atoms of the reject test


class Atom(t.NamedTuple):
    node: Node  # CFG test node whose edge decides
    reject: str  # label of the rejecting edge of that node ("T"/"F")
    kind: str  # eq | in | prefix | seg0 (first "/"-separated segment is one of consts) | isabs | altsep
    consts: tuple[str, ...]
    var: ast.Name  # occurrence of the tested variable (evaluated in `node`)
    text: str
    normal: bool = True  # the tested value is normpath(<loop element>) (or the empty string) on every path
    at: Node | None = None  # node in which the predicate is evaluated when that is not `node` (flag variable)
    via: Node | None = None  # head of an inner loop over the alternatives (`for sep in <alt seps>: if sep in x: ...`): passed = that loop exhausted

    @property
    def evalnode(self) -> Node:
        return self.at if self.at is not None else self.node

    @property
    def passlabel(self) -> str:
        return "F" if self.reject == "T" else "T"

    @property
    def pass_edge(self) -> tuple[Node, str]:
        """the edge that is taken exactly when the value has passed the test: the other edge of the test node - or,
        for a test repeated over a table by an inner loop, the exhausted edge of that loop."""
        return (self.via, "F") if self.via is not None else (self.node, self.passlabel)

    def covers(self, what: str) -> bool:
        if what == "abs":  # every string that starts with "/"
            return self.kind == "isabs" or (self.kind == "prefix" and any("/".startswith(p) for p in self.consts))
        if what == "dotdot":  # the string ".."
            return (self.kind in ("eq", "in", "seg0") and ".." in self.consts) or (self.kind == "prefix" and any("..".startswith(p) for p in self.consts))
        if what == "dotdot/":  # every string that starts with "../"
            return (self.kind == "prefix" and any("../".startswith(p) for p in self.consts)) or (self.kind == "seg0" and ".." in self.consts)
        if what == "altsep":
            return self.kind == "altsep"
        raise KeyError(what)


def _str_consts(e: ast.AST) -> tuple[str, ...] | None:
    if isinstance(e, ast.Constant) and isinstance(e.value, str):
        return (e.value,)
    if isinstance(e, (ast.Tuple, ast.List, ast.Set)) and e.elts and all(isinstance(x, ast.Constant) and isinstance(x.value, str) for x in e.elts):
        return tuple(x.value for x in e.elts)  # type: ignore[attr-defined]
    return None


def _derived(a: ast.AST) -> tuple[str, ast.Name, int] | None:
    """a part of a name that decides a prefix property:  x.split("/")[0] / x.split("/", n)[0] / x.partition("/")[0]
    (the first segment) -> ("seg0", x, 0);  x[:n] / x[0:n] -> ("head", x, n)."""
    if not isinstance(a, ast.Subscript):
        return None
    if isinstance(a.slice, ast.Slice):
        lo, hi = a.slice.lower, a.slice.upper
        if isinstance(a.value, ast.Name) and a.slice.step is None and (lo is None or (isinstance(lo, ast.Constant) and lo.value == 0)) and isinstance(hi, ast.Constant) and isinstance(hi.value, int) and hi.value > 0:
            return "head", a.value, hi.value
        return None
    if isinstance(a.slice, ast.Constant) and a.slice.value == 0 and isinstance(a.value, ast.Call) and isinstance(a.value.func, ast.Attribute) and isinstance(a.value.func.value, ast.Name) and not a.value.keywords:
        c = a.value
        m = c.func.attr  # type: ignore[attr-defined]
        if m in ("split", "partition") and c.args and isinstance(c.args[0], ast.Constant) and c.args[0].value == "/" and (len(c.args) == 1 or (m == "split" and len(c.args) == 2)):
            return "seg0", c.func.value, 0  # type: ignore[attr-defined]
    return None


def parse_atom(unit: Unit, e: ast.AST) -> tuple[str, tuple[str, ...], str, ast.Name] | None:
    """(kind, consts, label of the edge on which the predicate holds, tested Name) or None when the shape is unknown."""
    if isinstance(e, ast.Compare) and len(e.ops) == 1:
        a, op, b = e.left, e.ops[0], e.comparators[0]
        if isinstance(op, (ast.Eq, ast.NotEq)) and isinstance(a, ast.Constant) and not isinstance(b, ast.Constant):
            a, b = b, a
        while isinstance(a, ast.NamedExpr):
            a = a.value  # `(head := x.split("/", 1)[0]) == ".."`: the comparison is about the bound value
        d = _derived(a)
        if d is not None and isinstance(op, (ast.Eq, ast.NotEq, ast.In, ast.NotIn)):
            cs = _str_consts(b) if not (isinstance(op, (ast.In, ast.NotIn)) and isinstance(b, ast.Constant)) else None
            if cs:
                holds = "T" if isinstance(op, (ast.Eq, ast.In)) else "F"
                if d[0] == "seg0":
                    return "seg0", cs, holds, d[1]
                n = d[2]
                cs = tuple(c for c in cs if len(c) <= n)  # x[:n] is never longer than n
                if all(len(c) == n for c in cs):
                    return ("prefix" if cs else "in"), cs, holds, d[1]
                if all(len(c) < n for c in cs):
                    return "in", cs, holds, d[1]
            return None
        if isinstance(op, (ast.Eq, ast.NotEq)):
            if isinstance(a, ast.Name) and isinstance(b, ast.Constant) and isinstance(b.value, str):
                return "eq", (b.value,), "T" if isinstance(op, ast.Eq) else "F", a
        if isinstance(op, (ast.In, ast.NotIn)) and isinstance(a, ast.Name) and not isinstance(b, ast.Constant):
            cs = _str_consts(b)
            if cs:
                return "in", cs, "T" if isinstance(op, ast.In) else "F", a
        return None
    if isinstance(e, ast.Call):
        f = e.func
        if isinstance(f, ast.Attribute) and f.attr == "startswith" and len(e.args) == 1 and not e.keywords and isinstance(f.value, ast.BinOp) and isinstance(f.value.op, ast.Add) and isinstance(f.value.left, ast.Name) and isinstance(f.value.right, ast.Constant) and f.value.right.value == "/":
            # (x + "/").startswith(s + "/"), s without "/":  x == s or x starts with s + "/"  -  the first segment of x is s
            cs = _str_consts(e.args[0])
            if cs and all(c.endswith("/") and c[:-1] and "/" not in c[:-1] for c in cs):
                return "seg0", tuple(c[:-1] for c in cs), "T", f.value.left
            return None
        if isinstance(f, ast.Attribute) and f.attr == "startswith" and isinstance(f.value, ast.Name) and len(e.args) == 1 and not e.keywords:
            cs = _str_consts(e.args[0])
            if cs:
                return "prefix", cs, "T", f.value
            return None
        fq = unit.resolve(f)
        if fq in ("os.path.isabs", "posixpath.isabs") and len(e.args) == 1 and isinstance(e.args[0], ast.Name):
            return "isabs", (), "T", e.args[0]
        if fq == "builtins.any" and len(e.args) == 1 and isinstance(e.args[0], (ast.GeneratorExp, ast.ListComp)):
            g = e.args[0]
            if len(g.generators) == 1 and not g.generators[0].ifs and isinstance(g.generators[0].target, ast.Name):
                tv = g.generators[0].target.id
                c = g.elt
                if isinstance(c, ast.Compare) and len(c.ops) == 1 and isinstance(c.ops[0], ast.In) and astq.is_name(c.left, tv) and isinstance(c.comparators[0], ast.Name):
                    it = g.generators[0].iter
                    fqi = unit.resolve(it)
                    if fqi and _is_alt_seps(unit.repo, fqi):
                        return "altsep", (fqi,), "T", c.comparators[0]
        return None
    return None


def _is_alt_seps(repo: Repo, fq: str) -> bool:
    """a module-level constant built from os.sep and os.path.altsep."""
    mn, _, nm = fq.rpartition(".")
    m = repo.modules.get(mn)
    if m is None or nm not in m.assigns:
        return False
    seen = set()
    for v in m.assigns[nm]:
        for n in ast.walk(v):
            d = dotted(n) if isinstance(n, ast.Attribute) else None
            if d:
                seen.add(repo.resolve(m, d))
    return {"os.sep", "os.path.altsep"} <= seen


def or_atoms(e: ast.AST) -> list[ast.AST]:
    if isinstance(e, ast.BoolOp) and isinstance(e.op, ast.Or):
        out: list[ast.AST] = []
        for v in e.values:
            out += or_atoms(v)
        return out
    return [e]


# ---------------------------------------------------------------------
# emptiness tests and one-level summaries of predicate helpers


def empty_test(e: ast.AST) -> tuple[ast.Name, bool] | None:
    """(Name, truth value of `e` under which that name is known to be the empty string):
    `x` / `not x` / `x == ""` / `x != ""` / `"" == x`."""
    if isinstance(e, ast.UnaryOp) and isinstance(e.op, ast.Not):
        r = empty_test(e.operand)
        return (r[0], not r[1]) if r is not None else None
    if isinstance(e, ast.Name):
        return e, False
    ln = _len_arg(e)
    if ln is not None:
        return ln, False  # `len(x)` as a truth value
    if isinstance(e, ast.Compare) and len(e.ops) == 1:
        a, op, b = e.left, e.ops[0], e.comparators[0]
        if isinstance(a, ast.Constant):
            a, b = b, a
            op = {ast.Lt: ast.Gt, ast.Gt: ast.Lt, ast.LtE: ast.GtE, ast.GtE: ast.LtE}.get(type(op), type(op))()
        if isinstance(a, ast.Name) and isinstance(b, ast.Constant) and b.value == "":
            if isinstance(op, ast.Eq):
                return a, True
            if isinstance(op, ast.NotEq):
                return a, False
        ln = _len_arg(a)
        if ln is not None and isinstance(b, ast.Constant) and type(b.value) is int:
            # len(x) == 0 / != 0 / > 0 / >= 1 / < 1 / <= 0
            k = b.value
            if (isinstance(op, ast.Eq) and k == 0) or (isinstance(op, ast.Lt) and k == 1) or (isinstance(op, ast.LtE) and k == 0):
                return ln, True
            if (isinstance(op, ast.NotEq) and k == 0) or (isinstance(op, ast.Gt) and k == 0) or (isinstance(op, ast.GtE) and k == 1):
                return ln, False
    return None


def _len_arg(e: ast.AST) -> ast.Name | None:
    if isinstance(e, ast.Call) and isinstance(e.func, ast.Name) and e.func.id == "len" and len(e.args) == 1 and not e.keywords and isinstance(e.args[0], ast.Name):
        return e.args[0]
    return None


def const_fact(unit: Unit, e: ast.AST) -> tuple[str, tuple[str, ...], str] | None:
    """a condition atom that pins a *name* to finitely many string constants on one of its edges:
    (name, constants, label of the edge on which `name in constants` holds).  Emptiness tests (`not x`, `x == ""`,
    `len(x) == 0`), `x == c`, `x != c`, `x in (c1, c2)`, `x[:3] == ".."` (which is `x == ".."`)."""
    r = empty_test(e)
    if r is not None:
        return r[0].id, ("",), "T" if r[1] else "F"
    p = parse_atom(unit, e)
    if p is not None and p[0] in ("eq", "in") and p[1]:
        return p[3].id, tuple(p[1]), p[2]
    return None


def harmless_const(c: str, what: str) -> bool:
    """is the constant path component `c` free of the escaping shape `what` - judged on the text as it is joined
    (a constant is not normalised, so no '..' *segment* at all is allowed, not only a leading one)."""
    if what == "abs":
        return not c.startswith("/")
    if what in ("dotdot", "dotdot/"):
        return ".." not in c.split("/")
    if what == "altsep":
        return all(ch.isalnum() or ch in "._-/ " for ch in c)  # no character that is a path separator on any host
    raise KeyError(what)


def _leaves(e: ast.AST) -> list[ast.AST]:
    if isinstance(e, ast.BoolOp):
        out: list[ast.AST] = []
        for v in e.values:
            out += _leaves(v)
        return out
    if isinstance(e, ast.UnaryOp) and isinstance(e.op, ast.Not):
        return _leaves(e.operand)
    return [e]


def implied_atoms(unit: Unit, e: ast.AST, v: bool) -> list[tuple[str, tuple[str, ...], ast.Name, str]]:
    """predicates A on a Name with  A holds  =>  bool(e) == v   (each single A suffices): the disjuncts of an
    or-chain for v=True, the negated conjuncts of an and-chain for v=False, through `not` (De Morgan)."""
    if isinstance(e, ast.UnaryOp) and isinstance(e.op, ast.Not):
        return implied_atoms(unit, e.operand, not v)
    if isinstance(e, ast.BoolOp):
        one_suffices = isinstance(e.op, ast.Or) if v else isinstance(e.op, ast.And)
        if not one_suffices and len(e.values) > 1:
            return []
        out = []
        for x in e.values:
            out += implied_atoms(unit, x, v)
        return out
    p = parse_atom(unit, e)
    if p is not None and (p[2] == "T") == v:
        return [(p[0], p[1], p[3], norm(e))]
    return []


def _loop_altsep(hu: Unit, tn: Node) -> tuple[str, tuple[str, ...], str, ast.Name, ast.For] | None:
    """`<sep> in <name>` evaluated inside `for <sep> in <alternative separators>`: the explicit-loop spelling of
    any(sep in name for sep in _os_alt_seps)."""
    e = tn.ast
    if not (isinstance(e, ast.Compare) and len(e.ops) == 1 and isinstance(e.ops[0], (ast.In, ast.NotIn)) and isinstance(e.left, ast.Name) and isinstance(e.comparators[0], ast.Name)):
        return None
    loop = astq.enclosing(e, (ast.For, ast.AsyncFor, ast.While))
    if not isinstance(loop, ast.For) or not astq.is_name(loop.target, e.left.id):
        return None
    head = hu.cfg.node_of(loop)
    fqi = hu.resolve(loop.iter)
    if head is None or not fqi or not _is_alt_seps(hu.repo, fqi):
        return None
    defs = hu.rd.reaching(tn, e.left.id)
    if len(defs) != 1 or next(iter(defs)).kind != "for" or next(iter(defs)).node is not head:
        return None
    return "altsep", (fqi,), "T" if isinstance(e.ops[0], ast.In) else "F", e.comparators[0], loop


def helper_atoms(hu: Unit, param: str) -> tuple[list[tuple[bool, str, tuple[str, ...], str]], bool]:
    """summary of a predicate helper in its parameter `param`:  [(v, kind, consts, text)]  meaning
    `<predicate kind/consts> holds for the argument  =>  the helper returns a value of truthiness v`; and whether
    every test on the parameter was interpreted.  Decided on the helper's CFG, so `return a or b`, sequential
    `if a: return True`, an explicit loop over the alternative separators and the negated spelling
    (`return not (a or b)`, `if a: return False`) give the same summary:
      * the deciding edge leads only to constant returns of truthiness v, and
      * every path from the entry to the exit that avoids those returns passes the deciding test
        (for a test inside the separator loop: every iteration reaches it, and the loop head is passed)."""
    cfg, rd = hu.cfg, hu.rd
    rets = [(r, cfg.node_of(r)) for r in astq.returns_of(hu.node)]
    rets = [(r, n) for r, n in rets if n is not None]

    def const_truth(r: ast.Return) -> bool | None:
        if r.value is None:
            return False
        if isinstance(r.value, ast.Constant):
            return bool(r.value.value)
        return None

    def param_only(nm: ast.Name, node: Node) -> bool:
        return nm.id == param and bool(rd.reaching(node, param)) and all(d.kind == "param" for d in rd.reaching(node, param))

    def mentions(e: ast.AST) -> bool:
        return any(isinstance(x, ast.Name) and x.id == param for x in ast.walk(e))

    out: list[tuple[bool, str, tuple[str, ...], str]] = []
    complete = True
    interpreted: set[int] = set()
    for v in (True, False):
        R = [n for r, n in rets if const_truth(r) is v]
        bad = (cfg.exit.id, cfg.raise_exit.id)

        def closed(starts: list[Node], avoid: list[Node], also: tuple[int, ...] = ()) -> bool:
            starts = [s for s in starts if s not in avoid]
            if not starts:
                return True
            r = cfg.reach(starts, avoid_nodes=avoid)
            return not any(b in r for b in bad + also)

        for tn in cfg.nodes:
            if tn.kind != "test":
                continue
            q = parse_atom(hu, tn.ast)
            loop = None
            if q is None:
                la = _loop_altsep(hu, tn)
                if la is not None:
                    q, loop = la[:4], la[4]
            if q is None or not param_only(q[3], tn):
                continue
            interpreted.add(tn.id)
            kind, consts, lab, _var = q
            if not R or not closed(cfg.succ(tn, lab), R):
                continue
            if loop is not None:
                head = cfg.node_of(loop)
                ok = head is not None and closed(cfg.succ(head, "T"), [tn] + R, (head.id,)) and closed([cfg.entry], [head] + R)
            else:
                ok = closed([cfg.entry], [tn] + R)
            if ok:
                out.append((v, kind, consts, norm(tn.ast)))
        for r, rn in rets:
            if const_truth(r) is not None:
                continue
            if not closed([cfg.entry], [rn] + R):
                continue
            for kind, consts, var, text in implied_atoms(hu, r.value, v):
                if param_only(var, rn):
                    out.append((v, kind, consts, text))
    # completeness: every condition that reads the parameter was understood
    for tn in cfg.nodes:
        if tn.kind == "test" and tn.id not in interpreted and mentions(tn.ast):
            complete = False
    for r, rn in rets:
        if const_truth(r) is None:
            for leaf in _leaves(r.value):
                if mentions(leaf) and parse_atom(hu, leaf) is None:
                    complete = False
    return out, complete


# ---------------------------------------------------------------------
# conditions: what a truth value of an expression says about a variable


def implied(u: Unit, e: ast.AST, truth: bool, name: str, node: Node | None, depth: int = 0) -> str | None:
    """what `bool(e) == truth` says about the local variable `name` (read in CFG node `node`):
    'nonnull' (it is not None), 'empty' (it is None or another falsy value - it carries no path) or None (nothing).
    Decided on the meaning of the condition, not its spelling: `x is None` / `x is not None` / `x == None` / `x` /
    `not x` / `isinstance(x, str)`, the walrus forms `(x := ...) is None`, De Morgan over and / or / not, and a flag
    variable `f = <condition>` ... `if f` whose single definition was computed from the same value of x."""
    if depth > 6:
        return None
    if isinstance(e, ast.UnaryOp) and isinstance(e.op, ast.Not):
        return implied(u, e.operand, not truth, name, node, depth)
    if isinstance(e, ast.BoolOp):
        every = isinstance(e.op, ast.And) if truth else isinstance(e.op, ast.Or)  # every operand has this truth value
        rs = [implied(u, v, truth, name, node, depth) for v in e.values]
        if every:
            return next((r for r in rs if r is not None), None)
        return rs[0] if rs and all(r == rs[0] for r in rs) else None
    if isinstance(e, ast.NamedExpr):
        if e.target.id == name:
            return "nonnull" if truth else "empty"
        return implied(u, e.value, truth, name, node, depth)
    if isinstance(e, ast.Name):
        if e.id == name:
            return "nonnull" if truth else "empty"
        if node is None:
            return None
        defs = u.rd.reaching(node, e.id)
        d = next(iter(defs)) if len(defs) == 1 else None
        if d is None or d.kind not in ("assign", "walrus") or d.index is not None or d.value is None or d.node is None:
            return None
        binds = any(x.name == name for x in u.rd.gen[d.node.id])
        if (u.rd.after(d.node, name) if binds else u.rd.reaching(d.node, name)) != u.rd.reaching(node, name):
            return None  # the flag was computed from another value of the variable
        return implied(u, d.value, truth, name, d.node, depth + 1)
    if isinstance(e, ast.Compare) and len(e.ops) == 1:
        a, op, b = e.left, e.ops[0], e.comparators[0]
        if astq.is_none(a):
            a, b = b, a
        if astq.is_none(b) and (astq.is_name(a, name) or (isinstance(a, ast.NamedExpr) and a.target.id == name)):
            if isinstance(op, (ast.Is, ast.Eq)):
                return "empty" if truth else "nonnull"
            if isinstance(op, (ast.IsNot, ast.NotEq)):
                return "nonnull" if truth else "empty"
        return None
    if isinstance(e, ast.Call) and isinstance(e.func, ast.Name) and e.func.id == "isinstance" and len(e.args) == 2 and astq.is_name(e.args[0], name):
        cls = e.args[1]
        names = [dotted(x) for x in (cls.elts if isinstance(cls, ast.Tuple) else [cls])]
        if truth and names and all(n in ("str", "bytes", "os.PathLike") for n in names):
            return "nonnull"
    return None


def cond_says(u: Unit, conds: t.Sequence[tuple[ast.AST, bool]], name: str, node: Node | None) -> str | None:
    for test, truth in conds:
        r = implied(u, test, truth, name, node)
        if r is not None:
            return r
    return None


def ancestor_conds(u: Unit, n: ast.AST) -> tuple[tuple[ast.AST, bool], ...]:
    """conditions known to hold when the sub-expression `n` is evaluated, from the enclosing conditional
    expressions, and / or chains and comprehension filters of the same statement."""
    out: list[tuple[ast.AST, bool]] = []
    cur: ast.AST = n
    while True:
        p = astq.parent(cur)
        if p is None or isinstance(p, ast.stmt) or cur is u.node:
            break
        if isinstance(p, ast.IfExp):
            if cur is p.body:
                out.append((p.test, True))
            elif cur is p.orelse:
                out.append((p.test, False))
        elif isinstance(p, ast.BoolOp):
            i = next((k for k, v in enumerate(p.values) if v is cur), 0)
            out += [(v, isinstance(p.op, ast.And)) for v in p.values[:i]]
        elif isinstance(p, (ast.ListComp, ast.SetComp, ast.GeneratorExp, ast.DictComp)) and not isinstance(cur, ast.comprehension):
            for g in p.generators:
                out += [(c, True) for c in g.ifs]
        cur = p
    return tuple(out)


def identity_arg(u: Unit, e: ast.Call) -> ast.AST | None:
    """the argument of a call that returns its argument unchanged (os.fspath on a str, typing.cast)."""
    if e.keywords or any(isinstance(a, ast.Starred) for a in e.args):
        return None
    fq = u.resolve(e.func)
    if fq in IDENTITY and len(e.args) == 1:
        return e.args[0]
    if fq == "typing.cast" and len(e.args) == 2:
        return e.args[1]
    return None


def position(u: Unit, n: ast.AST, passes: t.Callable[[ast.Call, ast.AST], bool] = lambda c, a: False) -> str:
    """role of the value of sub-expression `n` in its statement:
    'test'    only its None-ness / truthiness is examined;
    'bind'    it becomes (one selected arm of) the value bound to a local name;
    'return'  it is (one selected arm of) the returned value;
    'pass'    it is handed to a followed helper (which is then responsible for it);
    'discard' expression statement; 'use' anything else."""
    cur: ast.AST = n
    while True:
        p = astq.parent(cur)
        if p is None:
            return "use"
        if isinstance(p, ast.IfExp):
            if cur is p.test:
                return "test"
            cur = p
            continue
        if isinstance(p, (ast.BoolOp, ast.NamedExpr)):
            cur = p
            continue
        if isinstance(p, ast.UnaryOp) and isinstance(p.op, ast.Not):
            return "test"
        if isinstance(p, ast.Compare) and len(p.ops) == 1 and isinstance(p.ops[0], (ast.Is, ast.IsNot, ast.Eq, ast.NotEq)) and (astq.is_none(p.left) or astq.is_none(p.comparators[0])):
            return "test"
        if isinstance(p, ast.Call):
            if identity_arg(u, p) is cur:
                cur = p
                continue
            if isinstance(p.func, ast.Name) and p.func.id == "isinstance" and p.args and p.args[0] is cur:
                return "test"
            if passes(p, cur):
                return "pass"
            return "use"
        if isinstance(p, ast.keyword):
            pp = astq.parent(p)
            return "pass" if isinstance(pp, ast.Call) and passes(pp, cur) else "use"
        if isinstance(p, (ast.If, ast.While, ast.Assert)) and cur is p.test:
            return "test"
        if isinstance(p, ast.comprehension) and cur in p.ifs:
            return "test"
        if isinstance(p, ast.Assign) and cur is p.value and all(isinstance(tg, ast.Name) for tg in p.targets):
            return "bind"
        if isinstance(p, ast.AnnAssign) and cur is p.value and isinstance(p.target, ast.Name):
            return "bind"
        if isinstance(p, (ast.Tuple, ast.List)):
            pp = astq.parent(p)
            if isinstance(pp, ast.Assign) and pp.value is p and len(pp.targets) == 1 and isinstance(pp.targets[0], (ast.Tuple, ast.List)) and len(pp.targets[0].elts) == len(p.elts) and all(isinstance(x, ast.Name) for x in pp.targets[0].elts):
                return "bind"
            if isinstance(p, ast.List) and _held_by_name(p):
                return "bind"  # kept in a list that is bound to a name: judged where the elements are taken out
            return "use"
        if isinstance(p, (ast.For, ast.AsyncFor)) and cur is p.iter and isinstance(p.target, ast.Name):
            return "bind"  # the elements are bound to the loop variable one by one
        if isinstance(p, ast.Return):
            return "return"
        if isinstance(p, ast.Expr):
            return "discard"
        return "use"


_EXC_PARENTS = {
    "FileNotFoundError": ("OSError", "IOError", "EnvironmentError"), "PermissionError": ("OSError", "IOError", "EnvironmentError"),
    "IsADirectoryError": ("OSError", "IOError", "EnvironmentError"), "NotADirectoryError": ("OSError", "IOError", "EnvironmentError"),
    "KeyError": ("LookupError",), "IndexError": ("LookupError",), "UnicodeError": ("ValueError",), "UnicodeDecodeError": ("UnicodeError", "ValueError"),
}


def _catching_handlers(n: Node) -> list[Node] | None:
    """for the node of `raise E(...)` / `raise E` with E a builtin exception class: the successor handler nodes
    whose `except` clause names E (or a base class of it); None when the raise is not of that form or no handler of
    the surrounding try names it (then every edge the CFG has is followed)."""
    a = n.ast
    if not isinstance(a, ast.Raise) or a.exc is None:
        return None
    exc = a.exc.func if isinstance(a.exc, ast.Call) else a.exc
    name = dotted(exc)
    if name is None or "." in name:
        return None
    accepted = {name, "Exception", "BaseException", *_EXC_PARENTS.get(name, ())}
    out = []
    for s, _lab in n.succs:
        if s.kind != "handler" or not isinstance(s.ast, ast.ExceptHandler):
            continue
        tp = s.ast.type
        names = [dotted(x) for x in (tp.elts if isinstance(tp, ast.Tuple) else [tp])] if tp is not None else ["BaseException"]
        if any(x in accepted for x in names if x):
            out.append(s)
    return out[:1] or None


def _held_by_name(disp: ast.AST) -> bool:
    """is the list display (possibly an arm of a conditional expression) the value bound to a single name?"""
    cur = disp
    p = astq.parent(cur)
    while isinstance(p, ast.IfExp) and cur is not p.test:
        cur, p = p, astq.parent(p)
    return (isinstance(p, ast.Assign) and p.value is cur and len(p.targets) == 1 and isinstance(p.targets[0], ast.Name)) or (isinstance(p, ast.AnnAssign) and p.value is cur and isinstance(p.target, ast.Name))


def held_elements(e: ast.AST | None, depth: int = 0) -> list[ast.AST] | None:
    """the element expressions of a list / tuple display (or of a conditional expression whose arms are displays,
    or list(...) / tuple(...) of one); None when e is not such a holder."""
    if e is None or depth > 4:
        return None
    if isinstance(e, (ast.List, ast.Tuple, ast.Set)):
        return [x.value if isinstance(x, ast.Starred) else x for x in e.elts]
    if isinstance(e, ast.IfExp):
        a, b = held_elements(e.body, depth + 1), held_elements(e.orelse, depth + 1)
        return a + b if a is not None and b is not None else None
    if isinstance(e, ast.Call) and isinstance(e.func, ast.Name) and e.func.id in ("list", "tuple") and len(e.args) <= 1 and not e.keywords:
        return held_elements(e.args[0], depth + 1) if e.args else []
    return None


def growth_args(fn: ast.AST, name: str) -> list[tuple[ast.AST, ast.AST, bool]]:
    """(statement, value put in, is the value itself a sequence of elements) for every in-place growth of the
    list bound to `name` in the function body: append / insert / extend / `L[i] = v` / `L[a:b] = vs`."""
    out: list[tuple[ast.AST, ast.AST, bool]] = []
    for n in own_nodes(fn):
        if isinstance(n, ast.Call) and isinstance(n.func, ast.Attribute) and astq.is_name(n.func.value, name):
            m = n.func.attr
            if m in ("append", "appendleft", "add") and len(n.args) == 1:
                out.append((n, n.args[0], False))
            elif m == "insert" and len(n.args) == 2:
                out.append((n, n.args[1], False))
            elif m in ("extend", "extendleft", "update") and len(n.args) == 1:
                out.append((n, n.args[0], True))
        elif isinstance(n, ast.Assign):
            for tg in n.targets:
                if isinstance(tg, ast.Subscript) and astq.is_name(tg.value, name):
                    out.append((n, n.value, isinstance(tg.slice, ast.Slice)))
    return out


# ---------------------------------------------------------------------
# nullness: where can the None of a refusing call (safe_join, or a helper that passes the refusal on) arrive?


class Nulls:
    """origin sets of possibly-None values.  A *source* is a call whose result may be None as a refusal (decided by
    `is_source`), a parameter that a caller may bind to such a result, or a `None` constant.  `origins(e, node)` is the
    set of sources whose None may be the value of expression `e` evaluated in CFG node `node`: the union over the
    arms of conditional expressions and and / or chains (each arm under the conditions that select it) and over
    the reaching definitions of names - a definition contributes only if some path from it to `node` keeps the
    variable and avoids every edge on which a test has established that it is not None."""

    def __init__(self, unit: Unit, is_source: t.Callable[[ast.Call], bool], null_params: t.Iterable[str] = (), elements: bool = False):
        self.u = unit
        self.is_source = is_source
        self.elements = elements  # also follow a source through tuple unpacking / subscription of its result
        a = unit.node.args  # type: ignore[attr-defined]
        args = {x.arg: x for x in a.posonlyargs + a.args + a.kwonlyargs}
        self.param_src = {p: args[p] for p in null_params if p in args}
        self._memo: dict[tuple[int, bool], frozenset[ast.AST]] = {}
        self._edges: dict[str, list[tuple[Node, str]]] = {}

    # -- expressions -------------------------------------------------------
    def origins(self, e: ast.AST | None, node: Node | None, conds: t.Sequence[tuple[ast.AST, bool]] = (), guarded: bool = True, depth: int = 0) -> frozenset[ast.AST]:
        none: frozenset[ast.AST] = frozenset()
        if e is None or depth > 12:
            return none
        conds = tuple(conds)
        if isinstance(e, ast.Constant):
            return frozenset([e]) if e.value is None else none
        if isinstance(e, ast.Call):
            if self.is_source(e):
                return frozenset([e])
            a = identity_arg(self.u, e)
            return self.origins(a, node, conds, guarded, depth + 1) if a is not None else none
        if isinstance(e, ast.NamedExpr):
            return self.origins(e.value, node, conds, guarded, depth + 1)
        if self.elements and isinstance(e, ast.Subscript):
            return self.origins(e.value, node, conds, guarded, depth + 1)
        if isinstance(e, ast.IfExp):
            return self.origins(e.body, node, conds + ((e.test, True),), guarded, depth + 1) | self.origins(e.orelse, node, conds + ((e.test, False),), guarded, depth + 1)
        if isinstance(e, ast.BoolOp):
            out: frozenset[ast.AST] = none
            is_and = isinstance(e.op, ast.And)
            for i, v in enumerate(e.values):
                # `a or b`: a is the result only when truthy (never None); `a and b`: a is the result when falsy
                if is_and or i == len(e.values) - 1:
                    out |= self.origins(v, node, conds, guarded, depth + 1)
                conds = conds + ((v, is_and),)
            return out
        if isinstance(e, ast.Name):
            if node is None or self.u.lambda_param(e) or bound_in_enclosing_comp(e, self.u.node) is not None:
                return none
            if guarded and cond_says(self.u, conds, e.id, node) == "nonnull":
                return none
            out = none
            for d in self.u.rd.reaching(node, e.id):
                o = self.def_origins(d, guarded)
                if o and (not guarded or self.unguarded(d, node)):
                    out |= o
            return out
        return none

    def def_origins(self, d: Def, guarded: bool = True) -> frozenset[ast.AST]:
        key = (id(d), guarded)
        if key in self._memo:
            return self._memo[key]
        self._memo[key] = frozenset()  # loop-carried definitions: cut the cycle
        out: frozenset[ast.AST] = frozenset()
        if d.kind == "param":
            out = frozenset([self.param_src[d.name]]) if d.name in self.param_src else out
        elif d.kind in ("assign", "walrus") and d.value is not None and d.node is not None and d.index is None:
            out = self.origins(d.value, d.node, (), guarded, 1) | self.held(d.value, d.node, guarded)
        elif d.kind == "for" and d.index is None and d.value is not None and d.node is not None:
            # the loop variable takes the elements of what is iterated: a list held by a name, or a display
            out = self.held(d.value, d.node, guarded)
            if self.elements:
                out |= self.origins(d.value, d.node, (), guarded, 1)
            if isinstance(d.value, ast.Name):
                for hd in self.u.rd.reaching(d.node, d.value.id):
                    if hd.kind in ("assign", "walrus") and hd.index is None and hd.value is not None and hd.node is not None:
                        out |= self.held(hd.value, hd.node, guarded)
                for _st, v, seq in growth_args(self.u.node, d.value.id):
                    vn = self.u.cfg.node_of(v)
                    out |= (self.held(v, vn, guarded) if seq else self.origins(v, vn, ancestor_conds(self.u, v), guarded, 1))
        elif d.kind == "unpack" and isinstance(d.value, (ast.Tuple, ast.List)) and d.index is not None and d.index < len(d.value.elts) and not any(isinstance(x, ast.Starred) for x in d.value.elts) and d.node is not None:
            out = self.origins(d.value.elts[d.index], d.node, (), guarded, 1)
        elif self.elements and d.kind in ("unpack", "for") and d.value is not None and d.node is not None:
            out = self.origins(d.value, d.node, (), guarded, 1)  # an element of what the call delivered
        self._memo[key] = out
        return out

    def held(self, e: ast.AST | None, node: Node | None, guarded: bool = True) -> frozenset[ast.AST]:
        """sources whose None may sit *inside* the list / tuple that `e` builds (see held_elements)."""
        out: frozenset[ast.AST] = frozenset()
        for x in held_elements(e) or []:
            out |= self.origins(x, node, ancestor_conds(self.u, x), guarded, 1)
        return out

    # -- paths ---------------------------------------------------------------
    def nonnull_edges(self, name: str) -> list[tuple[Node, str]]:
        """(test node, label) edges on which the variable is known not to be None."""
        if name not in self._edges:
            out = []
            for tn in self.u.cfg.nodes:
                if tn.kind != "test":
                    continue
                for lab in ("T", "F"):
                    if implied(self.u, tn.ast, lab == "T", name, tn) == "nonnull":
                        out.append((tn, lab))
            self._edges[name] = out
        return self._edges[name]

    def guard_edges(self, d: Def) -> list[tuple[Node, str]]:
        """the not-None edges that speak about definition d: tests of its variable, and - when d is a plain copy
        `x = y` - tests of y made while y still holds the copied value."""
        out = list(self.nonnull_edges(d.name))
        v = self._copied(d)
        if v is not None and d.node is not None:
            at_copy = self.u.rd.reaching(d.node, v.id)
            out += [(tn, lab) for tn, lab in self.nonnull_edges(v.id) if self.u.rd.reaching(tn, v.id) == at_copy]
        return out

    def _copied(self, d: Def) -> ast.Name | None:
        """the name whose value definition d copies (or, following elements, unpacks)."""
        v = d.value
        while isinstance(v, ast.NamedExpr):
            v = v.value
        if not isinstance(v, ast.Name) or v.id == d.name:
            return None
        if d.kind in ("assign", "walrus") and d.index is None:
            return v
        return v if self.elements and d.kind == "unpack" else None

    def tests_of(self, d: Def) -> list[tuple[Node, str, str]]:
        """the not-None edges of tests that examine the value of definition d: (test node, label, tested variable)."""
        rd = self.u.rd
        own = self.nonnull_edges(d.name)
        out = [(tn, lab, d.name) for tn, lab in own if d in rd.reaching(tn, d.name) or tn is d.node]
        v = self._copied(d)
        return out + [(tn, lab, v.id) for tn, lab in self.guard_edges(d) if (tn, lab) not in own and v is not None]

    def none_paths_end_in(self, test: Node, label: str, name: str, goals: list[Node]) -> bool:
        """does every path that leaves `test` on `label` - the edge on which variable `name` is None - end in one of
        `goals`?  While the variable is not rebound it stays None, so later not-None edges of its tests are dead."""
        cfg = self.u.cfg
        if not goals:
            return False
        goal_ids = {g.id for g in goals}
        blocked = {(tn.id, lab) for tn, lab in self.nonnull_edges(name)}
        killers = {n.id for n in cfg.nodes if any(x.name == name for x in self.u.rd.gen[n.id])}
        stack = [(s, True) for s in cfg.succ(test, label)]
        seen: set[tuple[int, bool]] = set()
        while stack:
            n, is_none = stack.pop()
            if n.id in goal_ids or (n.id, is_none) in seen:
                continue
            seen.add((n.id, is_none))
            if n is cfg.exit or n is cfg.raise_exit:
                return False
            if n.id in killers:
                is_none = False
            caught = _catching_handlers(n)
            for s, lab in n.succs:
                if is_none and (n.id, lab) in blocked:
                    continue
                if caught is not None and s not in caught:
                    continue  # `raise E(...)` inside a try that has an `except E`: that handler takes it
                stack.append((s, is_none))
        return True

    def unguarded(self, d: Def, node: Node) -> bool:
        """is there a path from definition d to `node` on which the variable keeps d's value and no not-None edge
        of a test about it is taken?"""
        cfg = self.u.cfg
        blocked = {(tn.id, lab) for tn, lab in self.guard_edges(d)}
        killers = {n.id for n in cfg.nodes if any(x.name == d.name for x in self.u.rd.gen[n.id])}
        start = d.node if d.node is not None else cfg.entry
        stack = [s for s, lab in start.succs if (start.id, lab) not in blocked and not (d.node is not None and lab == "exc")]
        seen: set[int] = set()
        while stack:
            n = stack.pop()
            if n is node:
                return True
            if n.id in seen:
                continue
            seen.add(n.id)
            if n.id in killers:
                continue
            for s, lab in n.succs:
                if (n.id, lab) not in blocked:
                    stack.append(s)
        return False

    def witness(self, d: Def, node: Node) -> list[Node] | None:
        start = d.node if d.node is not None else self.u.cfg.entry
        return self.u.cfg.path(start, node, avoid_edges=self.guard_edges(d))


# ---------------------------------------------------------------------
# provenance of sink arguments


JOIN = {"posixpath.join", "os.path.join"}
IDENTITY = {"os.fspath"}
T_, J_, X_ = "trusted", "safejoined", "unsafe"
_ORDER = {T_: 0, J_: 1, X_: 2}


def join_kind(a: str, b: str) -> str:
    return a if _ORDER[a] >= _ORDER[b] else b


class Summary(t.NamedTuple):
    """what a followed helper returns, under the parameter kinds its call sites give it."""

    kind: str = T_
    why: str = ""
    elems: tuple[tuple[str, str], ...] | None = None  # per element when every return is a tuple of one length
    nullable: bool = False  # may return None as a refusal (a safe_join None passed on, or `return None`)


class Prov:
    """provenance of a sink argument:
    trusted    = built only from constants and trusted names (configuration, closure variables of the factory);
    safejoined = a result of safe_join(<trusted or safejoined base>, ...) that is still *intact*: it was only copied,
                 selected (conditional expression / `or`), or joined with os.path.join / posixpath.join to other
                 trusted or safejoined operands.  Any other operation on it (a call such as unquote / normpath /
                 expandvars, a method call, concatenation, formatting, slicing) happens AFTER the containment check
                 and may re-open the escape, so the value loses the provenance;
    unsafe     = everything else, in particular the request-derived names of the unit.
    The value of a conditional expression / and-or chain is the set of its arms, each judged under the conditions
    that select it: the condition itself does not flow into the value, an arm that is a name known to be None (or
    falsy) under its condition carries no path, a non-final `and` operand is the result only when it is falsy.
    A call of a followed helper (same module / same class) has the provenance of what the helper returns under the
    kinds of the arguments its call sites pass (`follow`).
    A filesystem call that received a safe argument returns a handle of a contained file (trusted)."""

    def __init__(self, unit: Unit, is_safe_join: t.Callable[[Unit, ast.Call], bool], is_sink: t.Callable[[Unit, ast.Call], bool] | None = None, follow: t.Callable[[Unit, ast.Call], Summary | None] | None = None):
        self.u = unit
        self._cb = (is_safe_join, is_sink, follow)
        self.is_safe_join = lambda c: is_safe_join(unit, c)
        self.is_sink = (lambda c: is_sink(unit, c)) if is_sink else (lambda c: False)
        self.follow = (lambda c: follow(unit, c)) if follow else (lambda c: None)

    def safe(self, e: ast.AST | None, node: Node | None, depth: int = 0) -> tuple[bool, str]:
        k, why = self.kind(e, node, depth, ancestor_conds(self.u, e) if e is not None else ())
        return k != X_, why

    def _arms(self, arms: list[tuple[ast.AST, tuple]], node: Node | None, depth: int) -> tuple[str, str]:
        res = T_
        for a, conds in arms:
            k, why = self.kind(a, node, depth, conds)
            if k == X_:
                return k, why
            res = join_kind(res, k)
        return res, ""

    def kind(self, e: ast.AST | None, node: Node | None, depth: int = 0, conds: t.Sequence[tuple[ast.AST, bool]] = ()) -> tuple[str, str]:
        if e is None:
            return T_, ""
        if depth > 8:
            return X_, "definition chain too deep"
        conds = tuple(conds)
        if isinstance(e, ast.Constant):
            return T_, ""
        if isinstance(e, ast.Call) and self.is_safe_join(e):
            if not e.args or isinstance(e.args[0], ast.Starred):
                return X_, f"`{norm(e)}` has no positional base directory"
            k, why = self.kind(e.args[0], node, depth + 1, conds)
            return (X_, f"base directory of `{norm(e)}`: {why}") if k == X_ else (J_, "")
        if isinstance(e, ast.Name):
            if cond_says(self.u, conds, e.id, node) == "empty":
                return T_, ""  # None (or falsy) under the condition that selects this arm
            return self._name(e, node, depth)
        if isinstance(e, ast.Lambda):
            return self.kind(e.body, node, depth + 1, conds)
        if isinstance(e, ast.NamedExpr):
            return self.kind(e.value, node, depth, conds)
        if isinstance(e, ast.IfExp):
            return self._arms([(e.body, conds + ((e.test, True),)), (e.orelse, conds + ((e.test, False),))], node, depth)
        if isinstance(e, ast.BoolOp):
            is_and = isinstance(e.op, ast.And)
            arms = []
            for i, v in enumerate(e.values):
                if not is_and or i == len(e.values) - 1:
                    arms.append((v, conds))
                conds = conds + ((v, is_and),)
            return self._arms(arms, node, depth)
        if isinstance(e, ast.Call):
            s = self.follow(e)
            if s is not None:
                return (s.kind, f"`{norm(e)[:60]}` returns {s.why}" if s.kind == X_ else "")
        if isinstance(e, ast.Subscript) and not isinstance(e.slice, ast.Slice) and self.is_holder(e.value, node):
            k, why = self.kind(e.value, node, depth + 1, conds)  # one of the values the list holds, as it is
            ki, whyi = self.kind(e.slice, node, depth + 1, conds)
            return (k, why) if k == X_ or ki != X_ else (X_, whyi)
        kinds: list[str] = []
        for ch in ast.iter_child_nodes(e):
            if isinstance(ch, (ast.expr_context, ast.operator, ast.cmpop, ast.boolop, ast.unaryop)):
                continue
            if isinstance(ch, (ast.comprehension, ast.keyword)):
                for sub in ast.iter_child_nodes(ch):
                    if isinstance(sub, ast.expr) and not (isinstance(sub, ast.Name) and isinstance(sub.ctx, ast.Store)):
                        k, why = self.kind(sub, node, depth, conds)
                        if k == X_:
                            return k, why
                        kinds.append(k)
                continue
            k, why = self.kind(ch, node, depth, conds)
            if k == X_:
                return k, why
            kinds.append(k)
        if J_ not in kinds:
            return T_, ""
        if isinstance(e, ast.Call) and self.is_sink(e):
            return T_, ""  # handle of a file opened through a checked path
        if self._keeps(e):
            return J_, ""
        return X_, f"a safe_join result passes through `{norm(e)[:70]}` after the containment check (only a copy, a selection or os.path.join with trusted operands keeps the guarantee)"

    def is_holder(self, e: ast.AST | None, node: Node | None, depth: int = 0) -> bool:
        """does `e` denote a list / tuple that merely *holds* path values (a display, list(...) of one, or a name
        every reaching binding of which is such a holder)?  Taking an element out / spreading it with `*` gives the
        held values back unchanged, unlike indexing or slicing a path string."""
        if depth > 4 or e is None:
            return False
        if held_elements(e) is not None:
            return True
        if isinstance(e, ast.Name) and node is not None:
            defs = self.u.rd.reaching(node, e.id)
            return bool(defs) and all(
                (d.kind in ("assign", "walrus") and d.index is None and d.node is not None and self.is_holder(d.value, d.node, depth + 1))
                or (d.kind == "aug" and d.node is not None and held_elements(d.value) is not None and all(self._holder_def(p_, depth + 1) for p_ in self.u.rd.reaching(d.node, d.name) if p_ is not d))
                for d in defs
            )
        return False

    def _holder_def(self, d: Def, depth: int = 0) -> bool:
        if d.kind in ("assign", "walrus") and d.index is None and d.node is not None:
            return self.is_holder(d.value, d.node, depth)
        if d.kind == "aug" and d.node is not None and held_elements(d.value) is not None and depth < 4:
            return all(self._holder_def(p_, depth + 1) for p_ in self.u.rd.reaching(d.node, d.name) if p_ is not d)
        return False

    def _keeps(self, e: ast.AST) -> bool:
        if isinstance(e, ast.Starred):
            return True
        if isinstance(e, (ast.List, ast.Tuple, ast.Set)):
            return True  # a display holds its elements as they are
        if isinstance(e, ast.Call) and isinstance(e.func, ast.Name) and e.func.id in ("list", "tuple") and len(e.args) == 1 and not e.keywords and held_elements(e) is not None:
            return True
        if isinstance(e, ast.Call) and not e.keywords:
            fq = self.u.resolve(e.func)
            return fq in JOIN or identity_arg(self.u, e) is not None
        return False

    def _name(self, e: ast.Name, node: Node | None, depth: int) -> tuple[str, str]:
        u = self.u
        if u.lambda_param(e):
            return X_, f"`{e.id}` is the parameter of a callable invoked with request data"
        g = bound_in_enclosing_comp(e, u.node)
        if g is not None:
            return self.kind(g.iter, node, depth + 1)
        defs = u.rd.reaching(node, e.id) if node is not None else frozenset()
        if not defs:
            if e.id in u.untrusted:
                return X_, f"`{e.id}` is request-derived"
            if u._is_local(e.id):
                return T_, ""  # not bound yet on any path to this node
            return self._free(e.id, depth)
        res = T_
        for d in sorted(defs, key=lambda d: getattr(d.stmt, "lineno", 0)):
            k, why = self._def(d, depth)
            if k == X_:
                return k, why
            res = join_kind(res, k)
        # what is put into the object after its creation is part of it (append / insert / extend / item store)
        for st, v, _seq in growth_args(u.node, e.id):
            sn = u.cfg.node_of(st)
            if sn is None or not (u.rd.reaching(sn, e.id) & defs):
                continue
            k, why = self.kind(v, sn, depth + 1, ancestor_conds(u, v))
            if k == X_:
                return X_, f"`{norm(st)[:60]}` puts it into `{e.id}`: {why}"
            if k == J_ and not self.is_holder(e, node):
                return X_, f"a safe_join result is stored into `{e.id}` (`{norm(st)[:50]}`), which is not a plain list of path values"
            res = join_kind(res, k)
        return res, ""

    def _free(self, name: str, depth: int) -> tuple[str, str]:
        """a free variable: a local of an enclosing unit (any of its bindings may be current when the callable runs)
        or a module-level name (trusted)."""
        enc = self.u.enclosing
        while enc is not None:
            if enc._is_local(name):
                outer = Prov(enc, *self._cb)
                res = T_
                for d in [x for ds in enc.rd.gen.values() for x in ds if x.name == name] + [x for x in enc.rd.param_defs if x.name == name]:
                    k, why = outer._def(d, depth + 1)
                    if k == X_:
                        return X_, f"closure variable `{name}` of {enc.label}: {why}"
                    res = join_kind(res, k)
                return res, ""
            enc = enc.enclosing
        return T_, ""

    def _def(self, d: Def, depth: int) -> tuple[str, str]:
        if d.kind == "param":
            k = self.u.param_kind.get(d.name, T_)
            if k == X_:
                return X_, f"`{d.name}` is the request-derived parameter"
            return k, ""
        if d.kind in ("import", "def", "except", "del"):
            return T_, ""
        if d.value is None:
            return X_, f"`{d.name}` bound by an uninterpreted {d.kind}"
        v = d.value
        if d.kind == "unpack" and isinstance(v, (ast.Tuple, ast.List)) and d.index is not None and d.index < len(v.elts) and not any(isinstance(x, ast.Starred) for x in v.elts):
            v = v.elts[d.index]
        s = self.follow(v) if d.kind == "unpack" and isinstance(v, ast.Call) and d.index is not None else None
        if s is not None and s.elems is not None and d.index is not None and d.index < len(s.elems) and not isinstance(d.target, ast.Starred):
            k, why = s.elems[d.index]
            why = f"element {d.index} of what `{norm(v)[:50]}` returns: {why}" if k == X_ else ""
        else:
            k, why = self.kind(v, d.node, depth + 1)
        if k != X_ and d.kind == "aug" and d.node is not None:
            for p in self.u.rd.reaching(d.node, d.name):
                if p is d:
                    continue
                pk, why = self._def(p, depth + 1)
                if pk == X_:
                    k = X_
                    break
                if J_ in (pk, k):
                    if held_elements(d.value) is not None and self._holder_def(p):
                        k = join_kind(pk, k)  # `L += [x]` on a list of path values: one more held value
                        continue
                    k, why = X_, "a safe_join result is modified in place after the containment check"
                    break
                k = join_kind(pk, k)
        if k == X_:
            return X_, f"`{d.name}` <- `{norm(d.value)[:70]}`: {why}" if why and not why.startswith(f"`{d.name}` <-") else (why or f"`{d.name}` <- `{norm(d.value)[:70]}`")
        return k, ""
