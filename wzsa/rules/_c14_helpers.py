"""helpers for C14: reject-atom algebra for safe_join, provenance of sink arguments, abstract filename states."""

from __future__ import annotations

import ast
import typing as t

from .. import astq
from ..cfg import CFG, Node
from ..dataflow import Def, ReachingDefs, bound_in_enclosing_comp
from ..loader import AnalysisError, FuncInfo, Module, Repo, dotted, norm


# ---------------------------------------------------------------------
# analysis unit: one function body (top-level, method or nested def) with its CFG and reaching definitions


class Unit:
    def __init__(self, repo: Repo, owner: FuncInfo, node: ast.AST, label: str, untrusted: t.Iterable[str] = (), refusal: str = "none"):
        self.repo = repo
        self.owner = owner  # FuncInfo used for locations / finding keys
        self.node = node
        self.label = label
        self.module: Module = owner.module
        a = node.args  # type: ignore[attr-defined]
        self.params = [x.arg for x in a.posonlyargs + a.args + a.kwonlyargs] + ([a.vararg.arg] if a.vararg else []) + ([a.kwarg.arg] if a.kwarg else [])
        self.untrusted = set(untrusted)
        self.refusal = refusal  # "raise" (NotFound) | "none" (return None / (None, None))
        self.cfg = CFG(node)
        self.rd = ReachingDefs(self.cfg, self.params)
        self.local_imports = self.module.local_imports(owner.node)

    def resolve(self, e: ast.AST) -> str | None:
        d = dotted(e)
        if d is None:
            return None
        head = d.split(".")[0]
        # a local variable shadows module names
        return self.repo.resolve(self.module, d, self.local_imports) if not self._is_local(head) else None

    def _is_local(self, name: str) -> bool:
        if name in self.params:
            return True
        return any(d.name == name and d.kind not in ("import",) for ds in self.rd.gen.values() for d in ds)

    def inside(self, n: ast.AST, container: ast.AST) -> bool:
        cur: ast.AST | None = n
        while cur is not None:
            if cur is container:
                return True
            if cur is self.node:
                return False
            cur = astq.parent(cur)
        return False

    def lambda_param(self, name: ast.Name) -> bool:
        """is the Name bound by a lambda (or nested def) parameter between itself and the unit?"""
        cur = astq.parent(name)
        while cur is not None and cur is not self.node:
            if isinstance(cur, (ast.Lambda, ast.FunctionDef, ast.AsyncFunctionDef)):
                a = cur.args
                names = [x.arg for x in a.posonlyargs + a.args + a.kwonlyargs] + ([a.vararg.arg] if a.vararg else []) + ([a.kwarg.arg] if a.kwarg else [])
                if name.id in names:
                    return True
            cur = astq.parent(cur)
        return False


def own_nodes(fn: ast.AST, through_lambdas: bool = True) -> t.Iterator[ast.AST]:
    """nodes of fn's body; descends into lambdas (their bodies are evaluated with the enclosing
    statement's bindings) but not into nested def / class bodies."""
    stack = list(ast.iter_child_nodes(fn))
    while stack:
        n = stack.pop()
        yield n
        if isinstance(n, (ast.FunctionDef, ast.AsyncFunctionDef, ast.ClassDef)):
            continue
        if isinstance(n, ast.Lambda) and not through_lambdas:
            continue
        stack.extend(ast.iter_child_nodes(n))


def nested_defs(fn: ast.AST) -> list[ast.FunctionDef]:
    return [n for n in own_nodes(fn) if isinstance(n, (ast.FunctionDef, ast.AsyncFunctionDef))]


# ---------------------------------------------------------------------
# safe_join: atoms of the reject test


class Atom(t.NamedTuple):
    node: Node  # CFG test node whose edge decides
    reject: str  # label of the rejecting edge of that node ("T"/"F")
    kind: str  # eq | in | prefix | isabs | altsep
    consts: tuple[str, ...]
    var: ast.Name  # occurrence of the tested variable (evaluated in `node`)
    text: str
    normal: bool = True  # the tested value is normpath(<loop element>) (or the empty string) on every path
    at: Node | None = None  # node in which the predicate is evaluated when that is not `node` (flag variable)

    @property
    def evalnode(self) -> Node:
        return self.at if self.at is not None else self.node

    @property
    def passlabel(self) -> str:
        return "F" if self.reject == "T" else "T"

    def covers(self, what: str) -> bool:
        if what == "abs":  # every string that starts with "/"
            return self.kind == "isabs" or (self.kind == "prefix" and any("/".startswith(p) for p in self.consts))
        if what == "dotdot":  # the string ".."
            return (self.kind in ("eq", "in") and ".." in self.consts) or (self.kind == "prefix" and any("..".startswith(p) for p in self.consts))
        if what == "dotdot/":  # every string that starts with "../"
            return self.kind == "prefix" and any("../".startswith(p) for p in self.consts)
        if what == "altsep":
            return self.kind == "altsep"
        raise KeyError(what)


def _str_consts(e: ast.AST) -> tuple[str, ...] | None:
    if isinstance(e, ast.Constant) and isinstance(e.value, str):
        return (e.value,)
    if isinstance(e, (ast.Tuple, ast.List, ast.Set)) and e.elts and all(isinstance(x, ast.Constant) and isinstance(x.value, str) for x in e.elts):
        return tuple(x.value for x in e.elts)  # type: ignore[attr-defined]
    return None


def parse_atom(unit: Unit, e: ast.AST) -> tuple[str, tuple[str, ...], str, ast.Name] | None:
    """(kind, consts, label of the edge on which the predicate holds, tested Name) or None when the shape is unknown."""
    if isinstance(e, ast.Compare) and len(e.ops) == 1:
        a, op, b = e.left, e.ops[0], e.comparators[0]
        if isinstance(op, (ast.Eq, ast.NotEq)):
            if isinstance(b, ast.Name) and _str_consts(a) and isinstance(a, ast.Constant):
                a, b = b, a
            if isinstance(a, ast.Name) and isinstance(b, ast.Constant) and isinstance(b.value, str):
                return "eq", (b.value,), "T" if isinstance(op, ast.Eq) else "F", a
        if isinstance(op, (ast.In, ast.NotIn)) and isinstance(a, ast.Name) and not isinstance(b, ast.Constant):
            cs = _str_consts(b)
            if cs:
                return "in", cs, "T" if isinstance(op, ast.In) else "F", a
        return None
    if isinstance(e, ast.Call):
        f = e.func
        if isinstance(f, ast.Attribute) and f.attr == "startswith" and isinstance(f.value, ast.Name) and len(e.args) == 1 and not e.keywords:
            cs = _str_consts(e.args[0])
            if cs:
                return "prefix", cs, "T", f.value
            return None
        fq = unit.resolve(f)
        if fq in ("os.path.isabs", "posixpath.isabs") and len(e.args) == 1 and isinstance(e.args[0], ast.Name):
            return "isabs", (), "T", e.args[0]
        if fq == "builtins.any" and len(e.args) == 1 and isinstance(e.args[0], (ast.GeneratorExp, ast.ListComp)):
            g = e.args[0]
            if len(g.generators) == 1 and not g.generators[0].ifs and isinstance(g.generators[0].target, ast.Name):
                tv = g.generators[0].target.id
                c = g.elt
                if isinstance(c, ast.Compare) and len(c.ops) == 1 and isinstance(c.ops[0], ast.In) and astq.is_name(c.left, tv) and isinstance(c.comparators[0], ast.Name):
                    it = g.generators[0].iter
                    fqi = unit.resolve(it)
                    if fqi and _is_alt_seps(unit.repo, fqi):
                        return "altsep", (fqi,), "T", c.comparators[0]
        return None
    return None


def _is_alt_seps(repo: Repo, fq: str) -> bool:
    """a module-level constant built from os.sep and os.path.altsep."""
    mn, _, nm = fq.rpartition(".")
    m = repo.modules.get(mn)
    if m is None or nm not in m.assigns:
        return False
    seen = set()
    for v in m.assigns[nm]:
        for n in ast.walk(v):
            d = dotted(n) if isinstance(n, ast.Attribute) else None
            if d:
                seen.add(repo.resolve(m, d))
    return {"os.sep", "os.path.altsep"} <= seen


def or_atoms(e: ast.AST) -> list[ast.AST]:
    if isinstance(e, ast.BoolOp) and isinstance(e.op, ast.Or):
        out: list[ast.AST] = []
        for v in e.values:
            out += or_atoms(v)
        return out
    return [e]


# ---------------------------------------------------------------------
# emptiness tests and one-level summaries of predicate helpers


def empty_test(e: ast.AST) -> tuple[ast.Name, bool] | None:
    """(Name, truth value of `e` under which that name is known to be the empty string):
    `x` / `not x` / `x == ""` / `x != ""` / `"" == x`."""
    if isinstance(e, ast.UnaryOp) and isinstance(e.op, ast.Not):
        r = empty_test(e.operand)
        return (r[0], not r[1]) if r is not None else None
    if isinstance(e, ast.Name):
        return e, False
    if isinstance(e, ast.Compare) and len(e.ops) == 1:
        a, op, b = e.left, e.ops[0], e.comparators[0]
        if isinstance(a, ast.Constant):
            a, b = b, a
        if isinstance(a, ast.Name) and isinstance(b, ast.Constant) and b.value == "":
            if isinstance(op, ast.Eq):
                return a, True
            if isinstance(op, ast.NotEq):
                return a, False
    return None


def _leaves(e: ast.AST) -> list[ast.AST]:
    if isinstance(e, ast.BoolOp):
        out: list[ast.AST] = []
        for v in e.values:
            out += _leaves(v)
        return out
    if isinstance(e, ast.UnaryOp) and isinstance(e.op, ast.Not):
        return _leaves(e.operand)
    return [e]


def implied_atoms(unit: Unit, e: ast.AST, v: bool) -> list[tuple[str, tuple[str, ...], ast.Name, str]]:
    """predicates A on a Name with  A holds  =>  bool(e) == v   (each single A suffices): the disjuncts of an
    or-chain for v=True, the negated conjuncts of an and-chain for v=False, through `not` (De Morgan)."""
    if isinstance(e, ast.UnaryOp) and isinstance(e.op, ast.Not):
        return implied_atoms(unit, e.operand, not v)
    if isinstance(e, ast.BoolOp):
        one_suffices = isinstance(e.op, ast.Or) if v else isinstance(e.op, ast.And)
        if not one_suffices and len(e.values) > 1:
            return []
        out = []
        for x in e.values:
            out += implied_atoms(unit, x, v)
        return out
    p = parse_atom(unit, e)
    if p is not None and (p[2] == "T") == v:
        return [(p[0], p[1], p[3], norm(e))]
    return []


def _loop_altsep(hu: Unit, tn: Node) -> tuple[str, tuple[str, ...], str, ast.Name, ast.For] | None:
    """`<sep> in <name>` evaluated inside `for <sep> in <alternative separators>`: the explicit-loop spelling of
    any(sep in name for sep in _os_alt_seps)."""
    e = tn.ast
    if not (isinstance(e, ast.Compare) and len(e.ops) == 1 and isinstance(e.ops[0], (ast.In, ast.NotIn)) and isinstance(e.left, ast.Name) and isinstance(e.comparators[0], ast.Name)):
        return None
    loop = astq.enclosing(e, (ast.For, ast.AsyncFor, ast.While))
    if not isinstance(loop, ast.For) or not astq.is_name(loop.target, e.left.id):
        return None
    head = hu.cfg.node_of(loop)
    fqi = hu.resolve(loop.iter)
    if head is None or not fqi or not _is_alt_seps(hu.repo, fqi):
        return None
    defs = hu.rd.reaching(tn, e.left.id)
    if len(defs) != 1 or next(iter(defs)).kind != "for" or next(iter(defs)).node is not head:
        return None
    return "altsep", (fqi,), "T" if isinstance(e.ops[0], ast.In) else "F", e.comparators[0], loop


def helper_atoms(hu: Unit, param: str) -> tuple[list[tuple[bool, str, tuple[str, ...], str]], bool]:
    """summary of a predicate helper in its parameter `param`:  [(v, kind, consts, text)]  meaning
    `<predicate kind/consts> holds for the argument  =>  the helper returns a value of truthiness v`; and whether
    every test on the parameter was interpreted.  Decided on the helper's CFG, so `return a or b`, sequential
    `if a: return True`, an explicit loop over the alternative separators and the negated spelling
    (`return not (a or b)`, `if a: return False`) give the same summary:
      * the deciding edge leads only to constant returns of truthiness v, and
      * every path from the entry to the exit that avoids those returns passes the deciding test
        (for a test inside the separator loop: every iteration reaches it, and the loop head is passed)."""
    cfg, rd = hu.cfg, hu.rd
    rets = [(r, cfg.node_of(r)) for r in astq.returns_of(hu.node)]
    rets = [(r, n) for r, n in rets if n is not None]

    def const_truth(r: ast.Return) -> bool | None:
        if r.value is None:
            return False
        if isinstance(r.value, ast.Constant):
            return bool(r.value.value)
        return None

    def param_only(nm: ast.Name, node: Node) -> bool:
        return nm.id == param and bool(rd.reaching(node, param)) and all(d.kind == "param" for d in rd.reaching(node, param))

    def mentions(e: ast.AST) -> bool:
        return any(isinstance(x, ast.Name) and x.id == param for x in ast.walk(e))

    out: list[tuple[bool, str, tuple[str, ...], str]] = []
    complete = True
    interpreted: set[int] = set()
    for v in (True, False):
        R = [n for r, n in rets if const_truth(r) is v]
        bad = (cfg.exit.id, cfg.raise_exit.id)

        def closed(starts: list[Node], avoid: list[Node], also: tuple[int, ...] = ()) -> bool:
            starts = [s for s in starts if s not in avoid]
            if not starts:
                return True
            r = cfg.reach(starts, avoid_nodes=avoid)
            return not any(b in r for b in bad + also)

        for tn in cfg.nodes:
            if tn.kind != "test":
                continue
            q = parse_atom(hu, tn.ast)
            loop = None
            if q is None:
                la = _loop_altsep(hu, tn)
                if la is not None:
                    q, loop = la[:4], la[4]
            if q is None or not param_only(q[3], tn):
                continue
            interpreted.add(tn.id)
            kind, consts, lab, _var = q
            if not R or not closed(cfg.succ(tn, lab), R):
                continue
            if loop is not None:
                head = cfg.node_of(loop)
                ok = head is not None and closed(cfg.succ(head, "T"), [tn] + R, (head.id,)) and closed([cfg.entry], [head] + R)
            else:
                ok = closed([cfg.entry], [tn] + R)
            if ok:
                out.append((v, kind, consts, norm(tn.ast)))
        for r, rn in rets:
            if const_truth(r) is not None:
                continue
            if not closed([cfg.entry], [rn] + R):
                continue
            for kind, consts, var, text in implied_atoms(hu, r.value, v):
                if param_only(var, rn):
                    out.append((v, kind, consts, text))
    # completeness: every condition that reads the parameter was understood
    for tn in cfg.nodes:
        if tn.kind == "test" and tn.id not in interpreted and mentions(tn.ast):
            complete = False
    for r, rn in rets:
        if const_truth(r) is None:
            for leaf in _leaves(r.value):
                if mentions(leaf) and parse_atom(hu, leaf) is None:
                    complete = False
    return out, complete


# ---------------------------------------------------------------------
# provenance of sink arguments


JOIN = {"posixpath.join", "os.path.join"}
IDENTITY = {"os.fspath"}
T_, J_, X_ = "trusted", "safejoined", "unsafe"


class Prov:
    """provenance of a sink argument:
    trusted    = built only from constants and trusted names (configuration, closure variables of the factory);
    safejoined = a result of safe_join(<trusted or safejoined base>, ...) that is still *intact*: it was only copied,
                 selected (conditional expression / `or`), or joined with os.path.join / posixpath.join to other
                 trusted or safejoined operands.  Any other operation on it (a call such as unquote / normpath /
                 expandvars, a method call, concatenation, formatting, slicing) happens AFTER the containment check
                 and may re-open the escape, so the value loses the provenance;
    unsafe     = everything else, in particular the request-derived names of the unit.
    A filesystem call that received a safe argument returns a handle of a contained file (trusted)."""

    def __init__(self, unit: Unit, is_safe_join: t.Callable[[ast.Call], bool], is_sink: t.Callable[[ast.Call], bool] | None = None):
        self.u = unit
        self.is_safe_join = is_safe_join
        self.is_sink = is_sink or (lambda c: False)

    def safe(self, e: ast.AST | None, node: Node | None, depth: int = 0) -> tuple[bool, str]:
        k, why = self.kind(e, node, depth)
        return k != X_, why

    def kind(self, e: ast.AST | None, node: Node | None, depth: int = 0, value: bool = True) -> tuple[str, str]:
        """value=False: the expression is only evaluated (a condition), its value does not flow on."""
        if e is None:
            return T_, ""
        if depth > 8:
            return X_, "definition chain too deep"
        if isinstance(e, ast.Constant):
            return T_, ""
        if isinstance(e, ast.Call) and self.is_safe_join(e):
            if not e.args or isinstance(e.args[0], ast.Starred):
                return X_, f"`{norm(e)}` has no positional base directory"
            k, why = self.kind(e.args[0], node, depth + 1)
            return (X_, f"base directory of `{norm(e)}`: {why}") if k == X_ else (J_, "")
        if isinstance(e, ast.Name):
            return self._name(e, node, depth)
        if isinstance(e, ast.Lambda):
            return self.kind(e.body, node, depth + 1, value)
        if isinstance(e, ast.NamedExpr):
            return self.kind(e.value, node, depth, value)
        kinds: list[str] = []
        for ch in ast.iter_child_nodes(e):
            if isinstance(ch, (ast.expr_context, ast.operator, ast.cmpop, ast.boolop, ast.unaryop)):
                continue
            if isinstance(ch, (ast.comprehension, ast.keyword)):
                for sub in ast.iter_child_nodes(ch):
                    if isinstance(sub, ast.expr) and not (isinstance(sub, ast.Name) and isinstance(sub.ctx, ast.Store)):
                        k, why = self.kind(sub, node, depth, value)
                        if k == X_:
                            return k, why
                        kinds.append(k)
                continue
            k, why = self.kind(ch, node, depth, value and not (isinstance(e, ast.IfExp) and ch is e.test))
            if k == X_:
                return k, why
            kinds.append(k)
        if not value or J_ not in kinds:
            return T_, ""
        if isinstance(e, ast.Call) and self.is_sink(e):
            return T_, ""  # handle of a file opened through a checked path
        if self._keeps(e):
            return J_, ""
        return X_, f"a safe_join result passes through `{norm(e)[:70]}` after the containment check (only a copy, a selection or os.path.join with trusted operands keeps the guarantee)"

    def _keeps(self, e: ast.AST) -> bool:
        if isinstance(e, (ast.IfExp, ast.BoolOp, ast.Starred)):
            return True
        if isinstance(e, ast.Call) and not e.keywords:
            fq = self.u.resolve(e.func)
            return fq in JOIN or (fq in IDENTITY and len(e.args) == 1)
        return False

    def _name(self, e: ast.Name, node: Node | None, depth: int) -> tuple[str, str]:
        u = self.u
        if u.lambda_param(e):
            return X_, f"`{e.id}` is the parameter of a callable invoked with request data"
        g = bound_in_enclosing_comp(e, u.node)
        if g is not None:
            return self.kind(g.iter, node, depth + 1)
        defs = u.rd.reaching(node, e.id) if node is not None else frozenset()
        if not defs:
            if e.id in u.untrusted:
                return X_, f"`{e.id}` is request-derived"
            return T_, ""  # closure variable of the enclosing factory / module name
        res = T_
        for d in sorted(defs, key=lambda d: getattr(d.stmt, "lineno", 0)):
            k, why = self._def(d, depth)
            if k == X_:
                return k, why
            if k == J_:
                res = J_
        return res, ""

    def _def(self, d: Def, depth: int) -> tuple[str, str]:
        if d.kind == "param":
            if d.name in self.u.untrusted:
                return X_, f"`{d.name}` is the request-derived parameter"
            return T_, ""
        if d.kind in ("import", "def", "except", "del"):
            return T_, ""
        if d.value is None:
            return X_, f"`{d.name}` bound by an uninterpreted {d.kind}"
        v = d.value
        if d.kind == "unpack" and isinstance(v, (ast.Tuple, ast.List)) and d.index is not None and d.index < len(v.elts) and not any(isinstance(x, ast.Starred) for x in v.elts):
            v = v.elts[d.index]
        k, why = self.kind(v, d.node, depth + 1)
        if k != X_ and d.kind == "aug" and d.node is not None:
            for p in self.u.rd.reaching(d.node, d.name):
                if p is d:
                    continue
                pk, why = self._def(p, depth + 1)
                if pk == X_:
                    k = X_
                    break
                if J_ in (pk, k):
                    k, why = X_, "a safe_join result is modified in place after the containment check"
                    break
        if k == X_:
            return X_, f"`{d.name}` <- `{norm(d.value)[:70]}`: {why}" if why and not why.startswith(f"`{d.name}` <-") else (why or f"`{d.name}` <- `{norm(d.value)[:70]}`")
        return k, ""
