"""E7: reaching definitions over the CFG and a small abstract-tag evaluator.

``ReachingDefs`` answers "which bindings of local NAME can reach this CFG
node" - flow-sensitive, so ``header = header.lower()`` followed by a ``for``
loop that rebinds ``header`` is seen correctly.
"""

from __future__ import annotations

import ast
import typing as t

from .cfg import CFG, Node
from .loader import walk_no_nested


class Def:
    __slots__ = ("name", "kind", "value", "node", "target", "index", "stmt")

    def __init__(self, name: str, kind: str, value: ast.AST | None, node: Node | None, target: ast.AST | None = None, index: int | None = None, stmt: ast.AST | None = None):
        self.name = name
        self.kind = kind  # param assign aug for with except walrus unpack import def del
        self.value = value  # RHS expression (whole RHS for unpack, with index)
        self.node = node
        self.target = target
        self.index = index
        self.stmt = stmt

    def __repr__(self) -> str:
        v = ast.unparse(self.value)[:40] if self.value is not None else None
        return f"<Def {self.name} {self.kind} {v}>"


def _targets(tg: ast.AST, value: ast.AST | None, kind: str, node: Node, stmt: ast.AST) -> list[Def]:
    out: list[Def] = []
    if isinstance(tg, ast.Name):
        out.append(Def(tg.id, kind, value, node, tg, None, stmt))
    elif isinstance(tg, (ast.Tuple, ast.List)):
        for i, e in enumerate(tg.elts):
            if isinstance(e, ast.Starred):
                e = e.value
            if isinstance(e, ast.Name):
                out.append(Def(e.id, "unpack" if kind == "assign" else kind, value, node, e, i, stmt))
            elif isinstance(e, (ast.Tuple, ast.List)):
                for d in _targets(e, None, kind, node, stmt):
                    out.append(d)
    return out


def defs_of_node(n: Node) -> list[Def]:
    a = n.ast
    out: list[Def] = []
    if a is None:
        return out
    if n.kind == "loop" and isinstance(a, (ast.For, ast.AsyncFor)):
        out += _targets(a.target, a.iter, "for", n, a)
        exprs: list[ast.AST] = [a.iter]
    elif n.kind == "with" and isinstance(a, (ast.With, ast.AsyncWith)):
        for it in a.items:
            if it.optional_vars is not None:
                out += _targets(it.optional_vars, it.context_expr, "with", n, a)
        exprs = [it.context_expr for it in a.items]
    elif n.kind == "handler" and isinstance(a, ast.ExceptHandler):
        if a.name:
            out.append(Def(a.name, "except", a.type, n, None, None, a))
        exprs = []
    elif n.kind == "join":
        exprs = []
    elif isinstance(a, ast.Assign):
        for tg in a.targets:
            out += _targets(tg, a.value, "assign", n, a)
        exprs = [a.value]
    elif isinstance(a, ast.AnnAssign):
        if a.value is not None:
            out += _targets(a.target, a.value, "assign", n, a)
        exprs = [a.value] if a.value is not None else []
    elif isinstance(a, ast.AugAssign):
        out += _targets(a.target, a.value, "aug", n, a)
        exprs = [a.value]
    elif isinstance(a, (ast.FunctionDef, ast.AsyncFunctionDef, ast.ClassDef)):
        out.append(Def(a.name, "def", None, n, None, None, a))
        exprs = []
    elif isinstance(a, (ast.Import, ast.ImportFrom)):
        for al in a.names:
            out.append(Def((al.asname or al.name).split(".")[0], "import", None, n, None, None, a))
        exprs = []
    elif isinstance(a, ast.Delete):
        for tg in a.targets:
            if isinstance(tg, ast.Name):
                out.append(Def(tg.id, "del", None, n, tg, None, a))
        exprs = []
    else:
        exprs = [a]
    # walrus anywhere in the evaluated expressions
    for e in exprs:
        for w in [e, *walk_no_nested(e)]:
            if isinstance(w, ast.NamedExpr):
                out.append(Def(w.target.id, "walrus", w.value, n, w.target, None, w))
    return out


class ReachingDefs:
    def __init__(self, cfg: CFG, params: t.Iterable[str] = ()):
        self.cfg = cfg
        self.gen: dict[int, list[Def]] = {n.id: defs_of_node(n) for n in cfg.nodes}
        self.param_defs = [Def(p, "param", None, None) for p in params]
        self.inn: dict[int, dict[str, frozenset[Def]]] = {n.id: {} for n in cfg.nodes}
        self.out: dict[int, dict[str, frozenset[Def]]] = {n.id: {} for n in cfg.nodes}
        entry_out: dict[str, frozenset[Def]] = {}
        for d in self.param_defs:
            entry_out[d.name] = frozenset([d])
        self.out[cfg.entry.id] = entry_out
        work = [s for s, _ in cfg.entry.succs]
        seen_once: set[int] = set()
        while work:
            n = work.pop()
            merged: dict[str, set[Def]] = {}
            for p, _ in n.preds:
                for k, v in self.out[p.id].items():
                    merged.setdefault(k, set()).update(v)
            inn = {k: frozenset(v) for k, v in merged.items()}
            out = dict(inn)
            for d in self.gen[n.id]:
                out[d.name] = frozenset([d])
            if n.id in seen_once and out == self.out[n.id] and inn == self.inn[n.id]:
                continue
            seen_once.add(n.id)
            self.inn[n.id] = inn
            self.out[n.id] = out
            for s, _ in n.succs:
                work.append(s)

    def reaching(self, node: Node, name: str) -> frozenset[Def]:
        """definitions of ``name`` visible to expressions evaluated *in* node."""
        return self.inn.get(node.id, {}).get(name, frozenset())

    def after(self, node: Node, name: str) -> frozenset[Def]:
        return self.out.get(node.id, {}).get(name, frozenset())


def comp_locals(expr: ast.AST) -> dict[int, set[str]]:
    """for every comprehension under expr: id(comp) -> names it binds."""
    out: dict[int, set[str]] = {}
    for n in ast.walk(expr):
        if isinstance(n, (ast.ListComp, ast.SetComp, ast.GeneratorExp, ast.DictComp)):
            names: set[str] = set()
            for g in n.generators:
                for x in ast.walk(g.target):
                    if isinstance(x, ast.Name):
                        names.add(x.id)
            out[id(n)] = names
    return out


def bound_in_enclosing_comp(name_node: ast.Name, stop: ast.AST | None = None) -> ast.comprehension | None:
    """if the Name is a comprehension-local variable, return the generator binding it."""
    cur = getattr(name_node, "_parent", None)
    while cur is not None and cur is not stop:
        if isinstance(cur, (ast.ListComp, ast.SetComp, ast.GeneratorExp, ast.DictComp)):
            for g in cur.generators:
                for x in ast.walk(g.target):
                    if isinstance(x, ast.Name) and x.id == name_node.id:
                        return g
        if isinstance(cur, (ast.FunctionDef, ast.AsyncFunctionDef, ast.Lambda)):
            return None
        cur = getattr(cur, "_parent", None)
    return None
