"""E1: loader / resolver.

Parses every ``*.py`` under ``<repo>/src/werkzeug`` and offers

* per module: import map (alias -> dotted name), top-level bindings
* a class table with bases resolved across modules, C3 linearisation that
  includes builtin / ABC bases (their method tables are read from typeshed
  ``.pyi`` files with ``ast``)
* decorator-aware method tables
* lookups that raise :class:`AnchorMissing` when a slot cannot be filled, so
  a vanished anchor becomes ANALYSIS-ERROR (exit 2) and never a silent pass.
"""

from __future__ import annotations

import ast
import hashlib
import os
import typing as t
from pathlib import Path


class AnalysisError(Exception):
    """The machinery cannot decide (anchor missing, unfoldable constant ...)."""


class AnchorMissing(AnalysisError):
    pass


PKG = "werkzeug"


class FuncInfo:
    def __init__(self, module: "Module", node: ast.AST, qualname: str, cls: "ClassInfo | None"):
        self.module = module
        self.node = node  # FunctionDef / AsyncFunctionDef
        self.qualname = qualname  # e.g. Headers.set  or parse_date
        self.cls = cls
        self.name = node.name  # type: ignore[attr-defined]

    @property
    def fq(self) -> str:
        return f"{self.module.name}.{self.qualname}"

    @property
    def decorators(self) -> list[str]:
        return [dotted(d.func if isinstance(d, ast.Call) else d) or "?" for d in self.node.decorator_list]  # type: ignore[attr-defined]

    @property
    def params(self) -> list[str]:
        a = self.node.args  # type: ignore[attr-defined]
        return [x.arg for x in a.posonlyargs + a.args + a.kwonlyargs] + (
            [a.vararg.arg] if a.vararg else []
        ) + ([a.kwarg.arg] if a.kwarg else [])

    def loc(self, node: ast.AST | None = None) -> str:
        n = node if node is not None else self.node
        return f"{self.module.relpath}:{getattr(n, 'lineno', '?')}"

    def __repr__(self) -> str:
        return f"<Func {self.fq}>"


class ClassInfo:
    def __init__(self, module: "Module", node: ast.ClassDef, qualname: str):
        self.module = module
        self.node = node
        self.qualname = qualname
        self.name = node.name
        self.base_exprs = list(node.bases)
        # name -> list of FuncInfo (overloads kept; last one is the implementation)
        self.methods: dict[str, FuncInfo] = {}
        # class-level assignments name -> value expr (last wins)
        self.attrs: dict[str, ast.AST] = {}
        self.ann_only: set[str] = set()
        for st in node.body:
            self._scan(st)

    def _scan(self, st: ast.stmt) -> None:
        if isinstance(st, (ast.FunctionDef, ast.AsyncFunctionDef)):
            decs = [dotted(d.func if isinstance(d, ast.Call) else d) or "" for d in st.decorator_list]
            if any(d.endswith("overload") for d in decs):
                return
            # property setter / deleter definitions are kept under name.setter
            for d in decs:
                if d.endswith(".setter") or d.endswith(".deleter"):
                    kind = d.rsplit(".", 1)[1]
                    self.methods[f"{st.name}.{kind}"] = FuncInfo(
                        self.module, st, f"{self.qualname}.{st.name}.{kind}", self
                    )
                    return
            self.methods[st.name] = FuncInfo(self.module, st, f"{self.qualname}.{st.name}", self)
        elif isinstance(st, ast.Assign):
            for tg in st.targets:
                if isinstance(tg, ast.Name):
                    self.attrs[tg.id] = st.value
        elif isinstance(st, ast.AnnAssign) and isinstance(st.target, ast.Name):
            if st.value is not None:
                self.attrs[st.target.id] = st.value
            else:
                self.ann_only.add(st.target.id)
        elif isinstance(st, ast.If):
            # ``if t.TYPE_CHECKING:`` blocks and similar: scan both arms
            for s in st.body + st.orelse:
                self._scan(s)

    @property
    def fq(self) -> str:
        return f"{self.module.name}.{self.qualname}"

    def loc(self, node: ast.AST | None = None) -> str:
        n = node if node is not None else self.node
        return f"{self.module.relpath}:{getattr(n, 'lineno', '?')}"

    def __repr__(self) -> str:
        return f"<Class {self.fq}>"


class BuiltinClass:
    """A class outside the package (builtin / stdlib), known from typeshed."""

    def __init__(self, fq: str, methods: set[str], bases: list[str]):
        self.fq = fq
        self.name = fq.rsplit(".", 1)[-1]
        self.qualname = self.name
        self.method_names = methods
        self.bases = bases
        self.methods: dict[str, t.Any] = {}
        self.attrs: dict[str, t.Any] = {}

    def __repr__(self) -> str:
        return f"<Builtin {self.fq}>"


def dotted(node: ast.AST | None) -> str | None:
    """``a.b.c`` expression -> "a.b.c" (None when it is not a pure dotted name)."""
    parts: list[str] = []
    while isinstance(node, ast.Attribute):
        parts.append(node.attr)
        node = node.value
    if isinstance(node, ast.Name):
        parts.append(node.id)
        return ".".join(reversed(parts))
    return None


class Module:
    def __init__(self, repo: "Repo", name: str, path: Path):
        self.repo = repo
        self.name = name
        self.path = path
        self.relpath = str(path.relative_to(repo.root))
        self.source = path.read_text(encoding="utf-8")
        self.tree = ast.parse(self.source, filename=str(path))
        self.is_pkg = path.name == "__init__.py"
        self.imports: dict[str, str] = {}
        self.functions: dict[str, FuncInfo] = {}
        self.classes: dict[str, ClassInfo] = {}
        self.assigns: dict[str, list[ast.AST]] = {}  # name -> value exprs in order
        self.assign_nodes: dict[str, list[ast.stmt]] = {}
        for node in ast.walk(self.tree):
            for ch in ast.iter_child_nodes(node):
                ch._parent = node  # type: ignore[attr-defined]
        self._scan_body(self.tree.body)

    # -- scanning -----------------------------------------------------
    def _pkg_parts(self) -> list[str]:
        parts = self.name.split(".")
        return parts if self.is_pkg else parts[:-1]

    def _scan_imports_anywhere(self) -> None:
        pass

    def _scan_body(self, body: list[ast.stmt]) -> None:
        for st in body:
            if isinstance(st, ast.Import):
                for a in st.names:
                    if a.asname:
                        self.imports[a.asname] = a.name
                    else:
                        self.imports[a.name.split(".")[0]] = a.name.split(".")[0]
            elif isinstance(st, ast.ImportFrom):
                self._scan_importfrom(st)
            elif isinstance(st, (ast.FunctionDef, ast.AsyncFunctionDef)):
                decs = [dotted(d.func if isinstance(d, ast.Call) else d) or "" for d in st.decorator_list]
                if any(d.endswith("overload") for d in decs):
                    continue
                self.functions[st.name] = FuncInfo(self, st, st.name, None)
            elif isinstance(st, ast.ClassDef):
                self.classes[st.name] = ClassInfo(self, st, st.name)
            elif isinstance(st, ast.Assign):
                for tg in st.targets:
                    for nm in _target_names(tg):
                        self.assigns.setdefault(nm, []).append(st.value)
                        self.assign_nodes.setdefault(nm, []).append(st)
            elif isinstance(st, ast.AnnAssign) and isinstance(st.target, ast.Name) and st.value is not None:
                self.assigns.setdefault(st.target.id, []).append(st.value)
                self.assign_nodes.setdefault(st.target.id, []).append(st)
            elif isinstance(st, (ast.If, ast.Try)):
                for fld in ("body", "orelse", "finalbody"):
                    self._scan_body(getattr(st, fld, []) or [])
                for h in getattr(st, "handlers", []) or []:
                    self._scan_body(h.body)

    def _scan_importfrom(self, st: ast.ImportFrom) -> None:
        if st.level:
            base = self._pkg_parts()
            if st.level > 1:
                base = base[: len(base) - (st.level - 1)]
            mod = ".".join(base + ([st.module] if st.module else []))
        else:
            mod = st.module or ""
        for a in st.names:
            self.imports[a.asname or a.name] = f"{mod}.{a.name}" if mod else a.name

    def local_imports(self, func: ast.AST) -> dict[str, str]:
        """imports made inside a function body (``from . import http`` tails)."""
        out: dict[str, str] = {}
        save = self.imports
        try:
            self.imports = out
            for n in ast.walk(func):
                if isinstance(n, ast.Import):
                    for a in n.names:
                        out[a.asname or a.name.split(".")[0]] = a.name if a.asname else a.name.split(".")[0]
                elif isinstance(n, ast.ImportFrom):
                    self._scan_importfrom(n)
        finally:
            self.imports = save
        return out

    def seg(self, node: ast.AST) -> str:
        return ast.get_source_segment(self.source, node) or ast.unparse(node)


def _target_names(tg: ast.AST) -> list[str]:
    if isinstance(tg, ast.Name):
        return [tg.id]
    if isinstance(tg, (ast.Tuple, ast.List)):
        out: list[str] = []
        for e in tg.elts:
            out.extend(_target_names(e))
        return out
    return []


# ---------------------------------------------------------------------
# typeshed


def _typeshed_dir() -> Path | None:
    try:
        import mypy  # noqa: F401  (only used to locate the bundled typeshed; never to run code of werkzeug)

        p = Path(mypy.__file__).parent / "typeshed" / "stdlib"
        if p.is_dir():
            return p
    except Exception:
        pass
    return None


class Typeshed:
    """Method tables of builtin / stdlib classes, read from ``.pyi`` as text."""

    FILES = {
        "builtins": "builtins.pyi",
        "typing": "typing.pyi",
        "collections.abc": "typing.pyi",  # collections.abc re-exports typing's ABCs
        "io": "io.pyi",
        "_io": "_io.pyi",
    }

    def __init__(self) -> None:
        self.dir = _typeshed_dir()
        self._cache: dict[str, dict[str, tuple[set[str], list[str]]]] = {}

    def _load(self, mod: str) -> dict[str, tuple[set[str], list[str]]]:
        if mod in self._cache:
            return self._cache[mod]
        out: dict[str, tuple[set[str], list[str]]] = {}
        if self.dir is not None and mod in self.FILES:
            p = self.dir / self.FILES[mod]
            if p.exists():
                tree = ast.parse(p.read_text(encoding="utf-8"))
                for st in tree.body:
                    if isinstance(st, ast.ClassDef):
                        names: set[str] = set()
                        for b in st.body:
                            if isinstance(b, (ast.FunctionDef, ast.AsyncFunctionDef)):
                                names.add(b.name)
                            elif isinstance(b, ast.If):
                                for bb in b.body + b.orelse:
                                    if isinstance(bb, (ast.FunctionDef, ast.AsyncFunctionDef)):
                                        names.add(bb.name)
                        bases = []
                        for be in st.bases:
                            if isinstance(be, ast.Subscript):
                                be = be.value
                            d = dotted(be)
                            if d:
                                bases.append(d)
                        out[st.name] = (names, bases)
        self._cache[mod] = out
        return out

    def cls(self, fq: str) -> tuple[set[str], list[str]] | None:
        mod, _, name = fq.rpartition(".")
        mod = mod or "builtins"
        tbl = self._load(mod)
        if name in tbl:
            return tbl[name]
        if mod == "io":
            tbl = self._load("_io")
            if name.lstrip("_") in tbl or name in tbl:
                return tbl.get(name) or tbl.get(name.lstrip("_"))
        return None


# mutator names: Mutable* minus its read-only base, computed from typeshed,
# plus a reasoned supplement (methods of the concrete builtin that the ABC
# does not list).
_MUTATOR_SUPPLEMENT = {
    "list": {"sort", "__imul__", "__iadd__", "clear", "reverse", "extend", "append", "insert", "pop", "remove", "__setitem__", "__delitem__"},
    "dict": {"__ior__", "clear", "pop", "popitem", "setdefault", "update", "__setitem__", "__delitem__"},
    "set": {
        "update", "intersection_update", "difference_update", "symmetric_difference_update",
        "add", "discard", "remove", "pop", "clear", "__ior__", "__iand__", "__ixor__", "__isub__",
    },
}


class Repo:
    def __init__(self, root: str | os.PathLike[str]):
        self.root = Path(root).resolve()
        self.src = self.root / "src" / PKG
        if not self.src.is_dir():
            raise AnalysisError(f"no package at {self.src}")
        self.modules: dict[str, Module] = {}
        for p in sorted(self.src.rglob("*.py")):
            rel = p.relative_to(self.src.parent).with_suffix("")
            parts = list(rel.parts)
            if parts[-1] == "__init__":
                parts = parts[:-1]
            name = ".".join(parts)
            try:
                self.modules[name] = Module(self, name, p)
            except SyntaxError as e:  # pragma: no cover
                raise AnalysisError(f"cannot parse {p}: {e}")
        self.typeshed = Typeshed()
        self._mro_cache: dict[str, list[t.Any]] = {}
        self._builtin_cache: dict[str, BuiltinClass] = {}

    # -- digests ------------------------------------------------------
    def digest(self, modules: t.Iterable[str] | None = None) -> str:
        h = hashlib.sha256()
        for name in sorted(modules or self.modules):
            h.update(name.encode())
            h.update(self.modules[name].source.encode())
        return h.hexdigest()[:16]

    # -- lookups ------------------------------------------------------
    def module(self, name: str) -> Module:
        if not name.startswith(PKG):
            name = f"{PKG}.{name}" if name else PKG
        try:
            return self.modules[name]
        except KeyError:
            raise AnchorMissing(f"module {name} not found")

    def func(self, fq: str) -> FuncInfo:
        """``http.parse_date`` / ``datastructures.headers.Headers.set``"""
        f = self.try_func(fq)
        if f is None:
            raise AnchorMissing(f"function {fq} not found")
        return f

    def try_func(self, fq: str) -> FuncInfo | None:
        if not fq.startswith(PKG + "."):
            fq = f"{PKG}.{fq}"
        parts = fq.split(".")
        for i in range(len(parts) - 1, 0, -1):
            mn = ".".join(parts[:i])
            if mn in self.modules:
                m = self.modules[mn]
                rest = parts[i:]
                if len(rest) == 1:
                    return m.functions.get(rest[0])
                if len(rest) >= 2 and rest[0] in m.classes:
                    return m.classes[rest[0]].methods.get(".".join(rest[1:]))
                return None
        return None

    def cls(self, fq: str) -> ClassInfo:
        c = self.try_cls(fq)
        if c is None:
            raise AnchorMissing(f"class {fq} not found")
        return c

    def try_cls(self, fq: str) -> ClassInfo | None:
        if not fq.startswith(PKG + "."):
            fq = f"{PKG}.{fq}"
        mn, _, cn = fq.rpartition(".")
        m = self.modules.get(mn)
        if m is None:
            return None
        if cn in m.classes:
            return m.classes[cn]
        # re-export: follow the import
        if cn in m.imports:
            return self.try_cls(m.imports[cn]) if m.imports[cn].startswith(PKG) else None
        return None

    def all_classes(self) -> list[ClassInfo]:
        return [c for m in self.modules.values() for c in m.classes.values()]

    def all_functions(self) -> list[FuncInfo]:
        out: list[FuncInfo] = []
        for m in self.modules.values():
            out.extend(m.functions.values())
            for c in m.classes.values():
                out.extend(c.methods.values())
        return out

    # -- name resolution ---------------------------------------------
    def resolve(self, module: Module, name: str, local_imports: dict[str, str] | None = None) -> str | None:
        """dotted name as written in ``module`` -> fully qualified dotted name."""
        head, _, rest = name.partition(".")
        target: str | None = None
        if local_imports and head in local_imports:
            target = local_imports[head]
        elif head in module.classes or head in module.functions or head in module.assigns:
            target = f"{module.name}.{head}"
        elif head in module.imports:
            target = module.imports[head]
        else:
            # imports inside TYPE_CHECKING etc. were scanned too; builtins otherwise
            target = f"builtins.{head}"
        full = f"{target}.{rest}" if rest else target
        return self.canonical(full)

    def canonical(self, fq: str, _depth: int = 0) -> str:
        """follow re-exports inside the package (``werkzeug.datastructures.Headers``)."""
        if _depth > 8 or not fq.startswith(PKG):
            return _ALIASES.get(fq, fq)
        parts = fq.split(".")
        for i in range(len(parts), 0, -1):
            mn = ".".join(parts[:i])
            if mn in self.modules:
                m = self.modules[mn]
                rest = parts[i:]
                if not rest:
                    return fq
                head = rest[0]
                if head in m.classes or head in m.functions or head in m.assigns:
                    return fq
                if head in m.imports:
                    return self.canonical(".".join([m.imports[head]] + rest[1:]), _depth + 1)
                sub = f"{mn}.{head}"
                if sub in self.modules:
                    continue
                return fq
        return fq

    # -- class hierarchy ---------------------------------------------
    def builtin(self, fq: str) -> BuiltinClass:
        fq = _ALIASES.get(fq, fq)
        if fq in self._builtin_cache:
            return self._builtin_cache[fq]
        info = self.typeshed.cls(fq)
        if info is None:
            b = BuiltinClass(fq, set(), [])
        else:
            names, bases = info
            mod = fq.rpartition(".")[0] or "builtins"
            rb = []
            for bname in bases:
                if bname in ("Generic", "Protocol", "object"):
                    continue
                bfq = bname if "." in bname else f"{mod}.{bname}"
                if self.typeshed.cls(bfq) is None and self.typeshed.cls(f"typing.{bname.rsplit('.', 1)[-1]}") is not None:
                    bfq = f"typing.{bname.rsplit('.', 1)[-1]}"  # ABCs imported into builtins.pyi / io.pyi from typing
                rb.append(_ALIASES.get(bfq, bfq))
            b = BuiltinClass(fq, names, rb)
        self._builtin_cache[fq] = b
        return b

    def bases(self, c: ClassInfo | BuiltinClass) -> list[ClassInfo | BuiltinClass]:
        out: list[ClassInfo | BuiltinClass] = []
        if isinstance(c, BuiltinClass):
            for b in c.bases:
                out.append(self.builtin(b))
            return out
        for be in c.base_exprs:
            if isinstance(be, ast.Subscript):
                be = be.value
            d = dotted(be)
            if d is None:
                continue
            fq = self.resolve(c.module, d)
            if fq is None:
                continue
            if fq in ("typing.Generic", "typing.Protocol", "builtins.object", "typing_extensions.Protocol"):
                continue
            ci = self.try_cls(fq) if fq.startswith(PKG) else None
            out.append(ci if ci is not None else self.builtin(fq))
        return out

    def mro(self, c: ClassInfo | BuiltinClass) -> list[ClassInfo | BuiltinClass]:
        key = c.fq
        if key in self._mro_cache:
            return self._mro_cache[key]
        bases = self.bases(c)
        seqs = [list(self.mro(b)) for b in bases] + [list(bases)]
        res: list[ClassInfo | BuiltinClass] = [c]
        while True:
            seqs = [s for s in seqs if s]
            if not seqs:
                break
            for s in seqs:
                cand = s[0]
                if not any(cand.fq in [x.fq for x in s2[1:]] for s2 in seqs):
                    break
            else:
                raise AnalysisError(f"inconsistent MRO for {c.fq}")
            res.append(cand)
            for s in seqs:
                if s and s[0].fq == cand.fq:
                    del s[0]
        self._mro_cache[key] = res
        return res

    def lookup(self, c: ClassInfo | BuiltinClass, name: str, after: str | None = None):
        """Resolve attribute ``name`` in the MRO of ``c``.

        Returns (owner, what) where what is a FuncInfo, an ast expr (class
        attribute), or the string "builtin" for a typeshed-listed method.
        ``after``: start after the class with that fq (super()).
        """
        m = self.mro(c)
        start = 0
        if after is not None:
            for i, k in enumerate(m):
                if k.fq == after:
                    start = i + 1
                    break
        for k in m[start:]:
            if isinstance(k, BuiltinClass):
                if name in k.method_names:
                    return k, "builtin"
                continue
            if name in k.methods:
                return k, k.methods[name]
            if name in k.attrs:
                return k, k.attrs[name]
        return None, None

    def subclasses(self, base_fq: str) -> list[ClassInfo]:
        base_fq = base_fq if base_fq.startswith(PKG) or "." in base_fq else f"{PKG}.{base_fq}"
        out = []
        for c in self.all_classes():
            if any(k.fq == base_fq for k in self.mro(c)[1:]):
                out.append(c)
        return out

    def mutators(self, kind: str) -> set[str]:
        """names of the mutating methods of builtin ``list``/``dict``/``set``
        (typeshed Mutable* minus read-only ABC, plus the reasoned supplement)."""
        pair = {"list": ("MutableSequence", "Sequence"), "dict": ("MutableMapping", "Mapping"), "set": ("MutableSet", "AbstractSet")}[kind]
        a = self.typeshed.cls(f"typing.{pair[0]}")
        b = self.typeshed.cls(f"typing.{pair[1]}")
        names: set[str] = set()
        if a and b:
            names = set(a[0]) - set(b[0])
        names |= _MUTATOR_SUPPLEMENT[kind]
        names -= {"__init__", "__new__", "__class_getitem__"}
        return names


_ALIASES = {
    "collections.abc.MutableSet": "typing.MutableSet",
    "collections.abc.MutableMapping": "typing.MutableMapping",
    "collections.abc.MutableSequence": "typing.MutableSequence",
    "collections.abc.Mapping": "typing.Mapping",
    "collections.abc.Sequence": "typing.Sequence",
    "collections.abc.Set": "typing.AbstractSet",
    "collections.abc.Iterable": "typing.Iterable",
    "collections.abc.Collection": "typing.Collection",
    "collections.abc.Container": "typing.Container",
    "collections.abc.Sized": "typing.Sized",
    "collections.abc.Reversible": "typing.Reversible",
    "collections.abc.Iterator": "typing.Iterator",
    "typing.Dict": "builtins.dict",
    "typing.List": "builtins.list",
}


# ---------------------------------------------------------------------
# small AST helpers shared by rules


def walk_no_nested(node: ast.AST) -> t.Iterator[ast.AST]:
    """ast.walk that does not descend into nested function / class / lambda bodies."""
    stack = list(ast.iter_child_nodes(node))
    while stack:
        n = stack.pop()
        yield n
        if isinstance(n, (ast.FunctionDef, ast.AsyncFunctionDef, ast.ClassDef, ast.Lambda)):
            continue
        stack.extend(ast.iter_child_nodes(n))


def norm(node: ast.AST | str) -> str:
    """normalised text of a construct (used for finding keys)."""
    s = node if isinstance(node, str) else ast.unparse(node)
    return " ".join(s.split())


def is_self_attr(node: ast.AST, attr: str | None = None, selfname: str = "self") -> bool:
    return (
        isinstance(node, ast.Attribute)
        and isinstance(node.value, ast.Name)
        and node.value.id == selfname
        and (attr is None or node.attr == attr)
    )


def call_name(call: ast.Call) -> str | None:
    return dotted(call.func)


def const_str(node: ast.AST) -> str | None:
    if isinstance(node, ast.Constant) and isinstance(node.value, str):
        return node.value
    return None


def nested_funcs(fn: ast.AST) -> dict[str, ast.FunctionDef]:
    out = {}
    for n in ast.walk(fn):
        if n is not fn and isinstance(n, (ast.FunctionDef, ast.AsyncFunctionDef)):
            out[n.name] = n
    return out
