"""E2: statement-level control-flow graph for one function.

Nodes are simple statements, *atoms* of branch conditions (short-circuit
``and`` / ``or`` / ``not`` are split so that each atom has a true and a false
edge), loop heads, ``with`` heads and exception handlers.  Two exits: the
normal one (``return`` / falling off the end) and the raising one.

The queries rules need are all reachability questions on this graph with
some nodes or edges removed, which is exact for the graph and cheap for
functions of the size found here:

* ``edge_dominates(test, label, node)`` - every path from the entry to *node*
  takes the ``label`` edge of *test*;
* ``node_dominates(a, b)``;
* ``reach(start, avoid_nodes, avoid_edges)``;
* ``all_paths_pass(start, goal_nodes, through)``.
"""

from __future__ import annotations

import ast
import typing as t

from .loader import AnalysisError, dotted

NORETURN_CALLS = {"_immutable_error", "fail", "abort", "_unsupported"}


class Node:
    __slots__ = ("id", "kind", "ast", "succs", "preds", "note")

    def __init__(self, id: int, kind: str, node: ast.AST | None, note: str = ""):
        self.id = id
        self.kind = kind  # entry exit raise stmt test loop with handler join
        self.ast = node
        self.succs: list[tuple["Node", str | None]] = []
        self.preds: list[tuple["Node", str | None]] = []
        self.note = note

    @property
    def lineno(self) -> int:
        return getattr(self.ast, "lineno", 0)

    def text(self) -> str:
        if self.ast is None:
            return self.kind
        try:
            if isinstance(self.ast, (ast.For, ast.AsyncFor)):
                return f"for {ast.unparse(self.ast.target)} in {ast.unparse(self.ast.iter)}"
            if isinstance(self.ast, (ast.With, ast.AsyncWith)):
                return "with " + ", ".join(ast.unparse(i) for i in self.ast.items)
            if isinstance(self.ast, ast.ExceptHandler):
                return "except " + (ast.unparse(self.ast.type) if self.ast.type else "")
            s = ast.unparse(self.ast)
        except Exception:  # pragma: no cover
            s = self.kind
        s = " ".join(s.split())
        return s if len(s) < 100 else s[:97] + "..."

    def __repr__(self) -> str:
        return f"<{self.id}:{self.kind}@{self.lineno} {self.text()[:40]}>"


Frontier = t.List[t.Tuple[Node, t.Optional[str]]]


class _LoopCtx:
    def __init__(self, head: Node, depth: int):
        self.head = head
        self.breaks: Frontier = []
        self.finally_depth = depth


class CFG:
    def __init__(self, func: ast.AST, noreturn: t.Iterable[str] = ()):
        self.func = func
        self.noreturn = set(NORETURN_CALLS) | set(noreturn)
        self.nodes: list[Node] = []
        self.by_ast: dict[int, list[Node]] = {}
        self.entry = self._new("entry", None)
        self.exit = self._new("exit", None)
        self.raise_exit = self._new("raise", None)
        self._loops: list[_LoopCtx] = []
        # stack of try contexts: each a dict(handlers=[Node], catch_all=bool, final=[stmts] | None)
        self._tries: list[dict[str, t.Any]] = []
        self._finals: list[list[ast.stmt]] = []
        body = func.body if not isinstance(func, ast.Lambda) else [ast.Return(value=func.body)]  # type: ignore[attr-defined]
        fr = self._block(body, [(self.entry, None)])
        self._connect(fr, self.exit)
        self._parent: dict[int, ast.AST] = {}
        for n in ast.walk(func):
            for ch in ast.iter_child_nodes(n):
                self._parent[id(ch)] = n

    # -- construction --------------------------------------------------
    def _new(self, kind: str, node: ast.AST | None, note: str = "") -> Node:
        n = Node(len(self.nodes), kind, node, note)
        self.nodes.append(n)
        if node is not None:
            self.by_ast.setdefault(id(node), []).append(n)
        return n

    def _connect(self, fr: Frontier, to: Node) -> None:
        for src, label in fr:
            if not any(s is to and l == label for s, l in src.succs):
                src.succs.append((to, label))
                to.preds.append((src, label))

    def _exc_edges(self, n: Node) -> None:
        """statement *n* may raise: edge to the handlers of enclosing tries."""
        for ctx in reversed(self._tries):
            if ctx.get("in_body"):
                for h in ctx["handlers"]:
                    self._connect([(n, "exc")], h)
                if ctx["catch_all"]:
                    return
                if ctx["final"] is not None:
                    # exceptional path through the finally block, then onward
                    pass
        # no catch-all: not modelled for implicit raises outside try (see module doc)

    def _raise_from(self, n: Node) -> None:
        """explicit raise / NoReturn call at node n."""
        caught_all = False
        for ctx in reversed(self._tries):
            if ctx.get("in_body"):
                for h in ctx["handlers"]:
                    self._connect([(n, "exc")], h)
                if ctx["catch_all"]:
                    caught_all = True
                    break
        if not caught_all:
            fr: Frontier = [(n, "raise")]
            for fin in reversed(self._finals):
                fr = self._block_detached(fin, fr)
            self._connect(fr, self.raise_exit)

    def _block_detached(self, stmts: list[ast.stmt], fr: Frontier) -> Frontier:
        # build a copy of a finally body outside of its own try context
        save_tries, save_finals = self._tries, self._finals
        self._tries, self._finals = [], []
        try:
            return self._block(stmts, fr)
        finally:
            self._tries, self._finals = save_tries, save_finals

    def _block(self, stmts: list[ast.stmt], fr: Frontier) -> Frontier:
        for st in stmts:
            fr = self._stmt(st, fr)
        return fr

    def _is_noreturn_call(self, st: ast.stmt) -> bool:
        if isinstance(st, ast.Expr) and isinstance(st.value, ast.Call):
            d = dotted(st.value.func)
            if d and d.rsplit(".", 1)[-1] in self.noreturn:
                return True
        return False

    def _stmt(self, st: ast.stmt, fr: Frontier) -> Frontier:
        if not fr:
            # unreachable code: still build nodes so by_ast works, but detached
            pass
        if isinstance(st, ast.If):
            tf, ff = self._cond(st.test, fr)
            a = self._block(st.body, tf)
            b = self._block(st.orelse, ff)
            return a + b
        if isinstance(st, (ast.For, ast.AsyncFor)):
            head = self._new("loop", st)
            self._connect(fr, head)
            self._exc_edges(head)
            ctx = _LoopCtx(head, len(self._finals))
            self._loops.append(ctx)
            body_end = self._block(st.body, [(head, "T")])
            self._loops.pop()
            self._connect(body_end, head)
            after = self._block(st.orelse, [(head, "F")])
            return after + ctx.breaks
        if isinstance(st, ast.While):
            head = self._new("join", st, "while-head")
            self._connect(fr, head)
            ctx = _LoopCtx(head, len(self._finals))
            self._loops.append(ctx)
            tf, ff = self._cond(st.test, [(head, None)])
            body_end = self._block(st.body, tf)
            self._loops.pop()
            self._connect(body_end, head)
            after = self._block(st.orelse, ff)
            return after + ctx.breaks
        if isinstance(st, ast.Try) or st.__class__.__name__ == "TryStar":
            return self._try(st, fr)  # type: ignore[arg-type]
        if isinstance(st, (ast.With, ast.AsyncWith)):
            head = self._new("with", st)
            self._connect(fr, head)
            self._exc_edges(head)
            return self._block(st.body, [(head, None)])
        if isinstance(st, ast.Return):
            n = self._new("stmt", st)
            self._connect(fr, n)
            self._exc_edges(n)
            out: Frontier = [(n, None)]
            for fin in reversed(self._finals):
                out = self._block_detached(fin, out)
            self._connect(out, self.exit)
            return []
        if isinstance(st, ast.Raise) or self._is_noreturn_call(st):
            n = self._new("stmt", st)
            self._connect(fr, n)
            self._raise_from(n)
            return []
        if isinstance(st, ast.Break):
            n = self._new("stmt", st)
            self._connect(fr, n)
            if not self._loops:
                raise AnalysisError("break outside loop")
            lc = self._loops[-1]
            out = [(n, None)]
            for fin in reversed(self._finals[lc.finally_depth :]):
                out = self._block_detached(fin, out)
            lc.breaks.extend(out)
            return []
        if isinstance(st, ast.Continue):
            n = self._new("stmt", st)
            self._connect(fr, n)
            lc = self._loops[-1]
            out = [(n, None)]
            for fin in reversed(self._finals[lc.finally_depth :]):
                out = self._block_detached(fin, out)
            self._connect(out, lc.head)
            return []
        if st.__class__.__name__ == "Match":
            raise AnalysisError("match statement not supported by the CFG builder")
        # simple statement (incl. nested def/class, assert, assign, expr, ...)
        n = self._new("stmt", st)
        self._connect(fr, n)
        self._exc_edges(n)
        if isinstance(st, ast.Assert):
            # assert may raise AssertionError
            pass
        return [(n, None)]

    def _try(self, st: ast.Try, fr: Frontier) -> Frontier:
        handlers = [self._new("handler", h) for h in st.handlers]
        catch_all = any(
            h.type is None or (dotted(h.type) or "").rsplit(".", 1)[-1] in ("Exception", "BaseException")
            for h in st.handlers
        )
        ctx = {"handlers": handlers, "catch_all": catch_all, "final": st.finalbody or None, "in_body": True}
        if st.finalbody:
            self._finals.append(st.finalbody)
        self._tries.append(ctx)
        body_end = self._block(st.body, fr)
        ctx["in_body"] = False
        else_end = self._block(st.orelse, body_end)
        out = list(else_end)
        for h, hn in zip(st.handlers, handlers):
            out += self._block(h.body, [(hn, None)])
        self._tries.pop()
        if st.finalbody:
            self._finals.pop()
            out = self._block(st.finalbody, out)
        return out

    def _cond(self, e: ast.expr, fr: Frontier) -> tuple[Frontier, Frontier]:
        if isinstance(e, ast.BoolOp):
            if isinstance(e.op, ast.And):
                falses: Frontier = []
                cur = fr
                for v in e.values:
                    tf, ff = self._cond(v, cur)
                    falses += ff
                    cur = tf
                return cur, falses
            trues: Frontier = []
            cur = fr
            for v in e.values:
                tf, ff = self._cond(v, cur)
                trues += tf
                cur = ff
            return trues, cur
        if isinstance(e, ast.UnaryOp) and isinstance(e.op, ast.Not):
            tf, ff = self._cond(e.operand, fr)
            return ff, tf
        n = self._new("test", e)
        self._connect(fr, n)
        self._exc_edges(n)
        if isinstance(e, ast.Constant):
            if e.value:
                return [(n, "T")], []
            return [], [(n, "F")]
        return [(n, "T")], [(n, "F")]

    # -- lookups -------------------------------------------------------
    def node_of(self, a: ast.AST) -> Node | None:
        """CFG node that evaluates the given AST node (climbs to the enclosing
        statement / condition atom)."""
        cur: ast.AST | None = a
        while cur is not None:
            ns = self.by_ast.get(id(cur))
            if ns:
                return ns[0]
            cur = self._parent.get(id(cur))
        return None

    def nodes_of(self, a: ast.AST) -> list[Node]:
        cur: ast.AST | None = a
        while cur is not None:
            ns = self.by_ast.get(id(cur))
            if ns:
                return ns
            cur = self._parent.get(id(cur))
        return []

    def tests(self) -> list[Node]:
        return [n for n in self.nodes if n.kind in ("test", "loop")]

    def find(self, pred: t.Callable[[Node], bool]) -> list[Node]:
        return [n for n in self.nodes if pred(n)]

    # -- queries -------------------------------------------------------
    def reach(
        self,
        start: t.Iterable[Node] | Node | None = None,
        avoid_nodes: t.Iterable[Node] = (),
        avoid_edges: t.Iterable[tuple[Node, str | None]] = (),
        labels_only: t.Iterable[str | None] | None = None,
    ) -> set[int]:
        """ids of nodes reachable from start (default entry). A start node that
        is in avoid_nodes is still expanded."""
        if start is None:
            start = [self.entry]
        elif isinstance(start, Node):
            start = [start]
        avoid = {n.id for n in avoid_nodes}
        ae = {(n.id, l) for n, l in avoid_edges}
        seen: set[int] = set()
        stack = list(start)
        while stack:
            n = stack.pop()
            if n.id in seen:
                continue
            seen.add(n.id)
            for s, l in n.succs:
                if (n.id, l) in ae or s.id in avoid:
                    continue
                stack.append(s)
        return seen

    def reachable(self, n: Node) -> bool:
        return n.id in self.reach()

    def edge_dominates(self, test: Node, label: str, node: Node) -> bool:
        """every entry->node path takes edge (test,label)."""
        if not self.reachable(node):
            return True
        return node.id not in self.reach(avoid_edges=[(test, label)])

    def node_dominates(self, a: Node, b: Node) -> bool:
        if a is b:
            return True
        if not self.reachable(b):
            return True
        return b.id not in self.reach(avoid_nodes=[a])

    def guards(self, node: Node) -> list[tuple[Node, str]]:
        """all (test, label) edges that dominate node."""
        out = []
        for tnode in self.tests():
            for _, l in tnode.succs:
                if l in ("T", "F") and (tnode, l) not in out and tnode is not node:
                    if self.edge_dominates(tnode, l, node):
                        out.append((tnode, l))
        return out

    def all_paths_pass(self, start: Node, goals: t.Iterable[Node], through: t.Iterable[Node]) -> bool:
        """every path from start to any goal passes a node in ``through``."""
        through = list(through)
        if any(start is t for t in through):
            return True
        r = self.reach(start, avoid_nodes=through)
        return not any(g.id in r for g in goals)

    def path(self, start: Node, goal: Node, avoid_nodes: t.Iterable[Node] = (), avoid_edges=()) -> list[Node] | None:
        """one witness path start -> goal (BFS), for reports."""
        avoid = {n.id for n in avoid_nodes}
        ae = {(n.id, l) for n, l in avoid_edges}
        prev: dict[int, Node | None] = {start.id: None}
        q = [start]
        while q:
            n = q.pop(0)
            if n is goal:
                out = []
                cur: Node | None = n
                while cur is not None:
                    out.append(cur)
                    cur = prev[cur.id]
                return list(reversed(out))
            for s, l in n.succs:
                if s.id in prev or s.id in avoid or (n.id, l) in ae:
                    continue
                prev[s.id] = n
                q.append(s)
        return None

    def succ(self, n: Node, label: str | None) -> list[Node]:
        return [s for s, l in n.succs if l == label]

    def acyclic_paths(self, limit: int = 5000) -> list[list[tuple[Node, str | None]]]:
        """all entry->exit/raise paths that visit no node twice (thorough tier)."""
        out: list[list[tuple[Node, str | None]]] = []
        stack: list[tuple[Node, list[tuple[Node, str | None]], frozenset[int]]] = [(self.entry, [], frozenset())]
        while stack and len(out) < limit:
            n, p, seen = stack.pop()
            if n is self.exit or n is self.raise_exit:
                out.append(p + [(n, None)])
                continue
            for s, l in n.succs:
                if s.id in seen:
                    continue
                stack.append((s, p + [(n, l)], seen | {n.id}))
        return out

    def fmt_path(self, nodes: t.Sequence[Node]) -> str:
        return " -> ".join(f"L{n.lineno}:{n.text()[:50]}" for n in nodes if n.ast is not None)


def cfg_of(fi, **kw) -> CFG:
    """CFG of a loader.FuncInfo (cached on the object)."""
    c = getattr(fi, "_cfg", None)
    if c is None:
        c = CFG(fi.node, **kw)
        fi._cfg = c
    return c
