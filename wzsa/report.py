"""Obligations, findings, known findings, evidence, exit codes."""

from __future__ import annotations

import ast
import json
import os
import sys
import time
import typing as t
from pathlib import Path

from .loader import AnalysisError, FuncInfo, Repo, norm

VERIF = Path(__file__).resolve().parent.parent
KNOWN = VERIF / "known_findings.json"


class Obligation(t.NamedTuple):
    rule: str
    instance: str
    ok: bool
    fact: str
    loc: str
    key: str


class Ctx:
    """one run of one property's rules against one tree."""

    def __init__(self, pid: str, repo: Repo, tier: str):
        self.pid = pid
        self.repo = repo
        self.tier = tier
        self.obligations: list[Obligation] = []
        self.floors: list[dict[str, t.Any]] = []
        self.analysed_funcs: set[str] = set()
        self.analysed_modules: set[str] = set()
        self.rules: dict[str, str] = {}
        self.notes: list[str] = []
        self.extra: dict[str, t.Any] = {}
        self.errors: list[str] = []
        self.t0 = time.time()

    # -- recording -------------------------------------------------------
    def rule(self, rid: str, text: str) -> None:
        self.rules[rid] = text

    def saw(self, *fis: FuncInfo) -> None:
        for fi in fis:
            self.analysed_funcs.add(fi.fq)
            self.analysed_modules.add(fi.module.name)

    def ob(
        self,
        rule: str,
        instance: str,
        ok: bool,
        fact: str,
        where: FuncInfo | str | None = None,
        node: ast.AST | None = None,
        construct: ast.AST | str | None = None,
        key_fn: str | None = None,
    ) -> bool:
        """record one obligation instance.  ``key_fn``: the function the finding is attributed to in its key when
        that is not the function the construct stands in (a private helper is attributed to its public caller, so
        that extracting a helper neither hides nor resurrects a finding).

        key = rule | function | normalised construct: no line numbers, so a
        reformat neither hides nor resurrects a finding."""
        if isinstance(where, FuncInfo):
            self.saw(where)
            loc = where.loc(node)
            fn = key_fn or where.fq
        else:
            fn = where or ""
            loc = where or ""
        cons = norm(construct) if construct is not None else instance
        key = f"{self.pid}|{rule}|{fn}|{cons}"
        self.obligations.append(Obligation(rule, instance, bool(ok), fact, loc, key))
        return bool(ok)

    def floor(self, rule: str, what: str, count: int, floor: int) -> None:
        self.floors.append({"rule": rule, "what": what, "count": count, "floor": floor})
        if count < floor:
            self.errors.append(f"{rule}: {what}: matched {count} instance(s), floor is {floor} (rule would pass vacuously)")

    def error(self, msg: str) -> None:
        self.errors.append(msg)

    def note(self, msg: str) -> None:
        self.notes.append(msg)


def load_known() -> list[dict[str, t.Any]]:
    if not KNOWN.exists():
        return []
    return json.loads(KNOWN.read_text())["findings"]


def has_new_violations(ctx: Ctx) -> bool:
    known_active = {k["key"] for k in load_known() if k["property"] == ctx.pid and k.get("status") == "known"}
    return any((not o.ok) and o.key not in known_active for o in ctx.obligations)


def finish(ctx: Ctx, level_text: str, trusted: list[str], assumptions: list[str], write_evidence: bool = True) -> int:
    known = [k for k in load_known() if k["property"] == ctx.pid]
    known_active = {k["key"]: k for k in known if k.get("status") == "known"}
    failed = [o for o in ctx.obligations if not o.ok]
    new = [o for o in failed if o.key not in known_active]
    kn = [o for o in failed if o.key in known_active]
    wall = time.time() - ctx.t0
    out = sys.stdout

    if ctx.errors:
        for e in ctx.errors:
            print(f"ANALYSIS-ERROR property={ctx.pid} {e}", file=out)
        if not new:
            return 2
        # undischarged obligations on named constructs are reported even when a floor is missed elsewhere
        # (removing an instance and breaking another must not downgrade the violation to "could not decide")

    seen_keys = set()
    for o in kn:
        if o.key in seen_keys:
            continue
        seen_keys.add(o.key)
        print(f"KNOWN-FINDING: property={ctx.pid} {known_active[o.key]['what']} [{o.rule} at {o.loc}]", file=out)

    rc = 0
    vdir = VERIF / "evidence" / "violations"
    if write_evidence and vdir.is_dir():
        for old_f in vdir.glob(f"{ctx.pid}-*.json"):
            old_f.unlink()  # replay files always describe the latest run on the real tree
    if new:
        rc = 1
        vdir.mkdir(parents=True, exist_ok=True)
        seen: set[str] = set()
        i = 0
        for o in new:
            if o.key in seen:
                continue
            seen.add(o.key)
            i += 1
            rp = vdir / f"{ctx.pid}-{i}.json"
            if not write_evidence:
                # scratch runs (self-validation, seed checks) must not overwrite the replay files of the real tree
                print(f"{o.loc}: [{ctx.pid}-{o.rule}] {o.instance}: {o.fact}", file=out)
                print(f"VIOLATION property={ctx.pid} replay=(scratch run, no replay file)", file=out)
                continue
            rp.write_text(
                json.dumps(
                    {"property": ctx.pid, "rule": o.rule, "instance": o.instance, "fact": o.fact, "loc": o.loc, "key": o.key,
                     "rule_text": ctx.rules.get(o.rule, ""), "repo": str(ctx.repo.root)},
                    indent=1,
                )
            )
            print(f"{o.loc}: [{ctx.pid}-{o.rule}] {o.instance}: {o.fact}", file=out)
            print(f"VIOLATION property={ctx.pid} replay={rp}", file=out)

    if write_evidence:
        distinct = len({o.key for o in ctx.obligations})
        samples = []
        per_rule_seen: dict[str, int] = {}
        for o in ctx.obligations:
            if per_rule_seen.get(o.rule, 0) < 2:
                per_rule_seen[o.rule] = per_rule_seen.get(o.rule, 0) + 1
                samples.append({"rule": o.rule, "instance": o.instance, "verdict": "discharged" if o.ok else "FAILED", "fact": o.fact, "loc": o.loc})
        ev = {
            "property_id": ctx.pid,
            "tier": ctx.tier,
            "seed": int(os.environ.get("VERIF_SEED", "0") or 0),
            "level": "other",
            "coverage": {
                "explanation": level_text,
                "evaluations": len(ctx.obligations),
                "distinct_nontrivial": distinct,
                "rule": "one evaluation = one obligation instance (a rule applied to one construct of /repo's current source); distinct = distinct (rule, function, normalised construct) keys; every instance is non-trivial in that a floor check fails the run if a rule matches fewer constructs than were confirmed by hand",
                "obligations": len(ctx.obligations),
                "discharged": sum(1 for o in ctx.obligations if o.ok),
                "known_findings_suppressed": len(seen_keys),
                "new_violations": len({o.key for o in new}),
                "samples": samples,
                "rules": ctx.rules,
                "floors": ctx.floors,
                "functions_analysed": sorted(ctx.analysed_funcs),
                "modules_analysed": sorted(ctx.analysed_modules),
                "all_obligations": [
                    {"rule": o.rule, "instance": o.instance, "ok": o.ok, "fact": o.fact, "loc": o.loc} for o in ctx.obligations
                ],
                "notes": ctx.notes,
                "trusted_base": trusted,
                "checker_cmd": f"./check {ctx.pid} --tier {ctx.tier}",
                "repo_digest": ctx.repo.digest(),
                **ctx.extra,
            },
            "assumptions": assumptions,
            "wall_s": round(wall, 3),
            "violations": len({o.key for o in new}),
        }
        ed = VERIF / "evidence"
        ed.mkdir(exist_ok=True)
        (ed / f"{ctx.pid}.json").write_text(json.dumps(ev, indent=1, default=str))

    nfun = len(ctx.analysed_funcs)
    sv = ctx.extra.get("self_validation")
    if sv:
        print(f"self-validation: mutants reported {sv['mutants_reported']}, missed {sv['mutants_missed']}, twins silent {sv['twins_silent']}, skipped {sv['skipped']}", file=out)
        for c in sv["cases"]:
            if c["outcome"] == "skipped":
                print(f"  skipped {c['case']}: {c['why']}", file=out)
    print(
        f"{ctx.pid} [{ctx.tier}] rules={len(ctx.rules)} obligations={len(ctx.obligations)} "
        f"discharged={sum(1 for o in ctx.obligations if o.ok)} known={len(seen_keys)} new={len({o.key for o in new})} "
        f"functions={nfun} wall={wall:.2f}s",
        file=out,
    )
    return rc
