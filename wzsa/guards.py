"""Canonical guard atoms and decision-table extraction by CFG simulation.

Rules that compare a function's branch structure with an expected decision
table must not depend on how the conditions are spelled.  ``canon`` maps a
condition atom to (key, polarity) such that ``x is not None`` / ``not (x is
None)`` / ``x is None`` share one key, ``a > b`` and ``b < a`` share one key,
``a >= b`` is the negation of ``a < b`` and so on.  ``simulate`` walks the CFG
under a valuation of the keys and reports which terminal statement is reached,
so if/else flips, early returns, merged or split conditions, De Morgan rewrites
and conditional expressions all yield the same table.
"""

from __future__ import annotations

import ast
import itertools
import typing as t

from .cfg import CFG, Node
from .loader import AnalysisError, norm


def _n(e: ast.AST) -> str:
    return norm(e)


def canon(e: ast.AST) -> tuple[str, bool]:
    """(key, positive): the atom is true iff key's truth value == positive."""
    if isinstance(e, ast.UnaryOp) and isinstance(e.op, ast.Not):
        k, p = canon(e.operand)
        return k, not p
    if isinstance(e, ast.Compare) and len(e.ops) == 1:
        a, op, b = e.left, e.ops[0], e.comparators[0]
        A, B = _n(a), _n(b)
        if isinstance(op, ast.Is):
            return f"{A} is {B}", True
        if isinstance(op, ast.IsNot):
            return f"{A} is {B}", False
        if isinstance(op, (ast.Eq, ast.NotEq)):
            x, y = sorted([A, B])
            return f"{x} == {y}", isinstance(op, ast.Eq)
        if isinstance(op, ast.In):
            return f"{A} in {B}", True
        if isinstance(op, ast.NotIn):
            return f"{A} in {B}", False
        if isinstance(op, ast.Lt):
            return f"{A} < {B}", True
        if isinstance(op, ast.Gt):
            return f"{B} < {A}", True
        if isinstance(op, ast.LtE):  # a <= b  ==  not (b < a)
            return f"{B} < {A}", False
        if isinstance(op, ast.GtE):  # a >= b  ==  not (a < b)
            return f"{A} < {B}", False
    if isinstance(e, ast.NamedExpr):
        return _n(e.value), True
    return _n(e), True


def guard_set(cfg: CFG, node: Node) -> set[tuple[str, bool]]:
    """canonical (key, value) pairs that hold on every path to node."""
    out = set()
    for tn, label in cfg.guards(node):
        if tn.kind != "test":
            continue
        k, p = canon(tn.ast)
        out.add((k, (label == "T") == p))
    return out


def has(g: set[tuple[str, bool]], key_of: ast.AST | str, value: bool = True) -> bool:
    """does guard set g contain the atom (given as source text or AST) with that truth value?"""
    e = ast.parse(key_of, mode="eval").body if isinstance(key_of, str) else key_of
    k, p = canon(e)
    return (k, value == p) in g


def atom(text: str) -> tuple[str, bool]:
    return canon(ast.parse(text, mode="eval").body)


class Outcome(t.NamedTuple):
    kind: str  # 'return' | 'raise' | 'fall' | 'loop'
    node: Node | None
    value: ast.AST | None  # returned / raised expression (IfExp in a return is resolved by the valuation)
    passed: tuple[Node, ...]


def simulate(cfg: CFG, val: t.Callable[[str], bool | None], start: Node | None = None, limit: int = 2000) -> list[Outcome]:
    """walk the CFG from start (default entry), choosing the edge of every test node by ``val(key)``
    (None = unknown: both edges are followed).  Exceptional ('exc') edges are not followed."""
    out: list[Outcome] = []
    stack: list[tuple[Node, tuple[Node, ...], frozenset[int]]] = [(start or cfg.entry, (), frozenset())]
    steps = 0
    while stack:
        n, passed, seen = stack.pop()
        steps += 1
        if steps > limit:
            raise AnalysisError("simulation did not terminate")
        if n is cfg.exit:
            out.append(Outcome("fall", None, None, passed))
            continue
        if n is cfg.raise_exit:
            out.append(Outcome("raise", passed[-1] if passed else None, None, passed))
            continue
        if n.id in seen:
            out.append(Outcome("loop", n, None, passed))
            continue
        seen2 = seen | {n.id}
        if n.kind == "test":
            k, p = canon(n.ast)
            v = val(k)
            labels = ["T", "F"] if v is None else (["T"] if v == p else ["F"])
            for lab in labels:
                for s in cfg.succ(n, lab):
                    stack.append((s, passed + (n,), seen2))
            continue
        if n.kind == "stmt" and isinstance(n.ast, ast.Return):
            for v_ in _resolve_ifexp(n.ast.value, val):
                out.append(Outcome("return", n, v_, passed + (n,)))
            continue
        if n.kind == "stmt" and isinstance(n.ast, ast.Raise):
            out.append(Outcome("raise", n, n.ast.exc, passed + (n,)))
            continue
        nxt = [s for s, l in n.succs if l != "exc"]
        if not nxt:
            out.append(Outcome("fall", n, None, passed + (n,)))
        for s in nxt:
            stack.append((s, passed + (n,), seen2))
    return out


def _resolve_ifexp(e: ast.AST | None, val) -> list[ast.AST | None]:
    if isinstance(e, ast.IfExp):
        res: list[ast.AST | None] = []
        for v in _truth(e.test, val):
            res.extend(_resolve_ifexp(e.body if v else e.orelse, val))
        return res
    if isinstance(e, ast.Call) and norm(e.func).endswith("cast") and len(e.args) == 2:
        return _resolve_ifexp(e.args[1], val)
    return [e]


def _truth(e: ast.AST, val) -> list[bool]:
    """possible truth values of a condition expression under the valuation."""
    if isinstance(e, ast.BoolOp):
        acc = [True] if isinstance(e.op, ast.And) else [False]
        res: set[bool] = set()
        # enumerate: short-circuit semantics do not matter for truth values
        opts = [_truth(v, val) for v in e.values]
        for combo in itertools.product(*opts):
            res.add(all(combo) if isinstance(e.op, ast.And) else any(combo))
        return sorted(res)
    if isinstance(e, ast.UnaryOp) and isinstance(e.op, ast.Not):
        return sorted({not x for x in _truth(e.operand, val)})
    k, p = canon(e)
    v = val(k)
    if v is None:
        return [False, True]
    return [v == p]


def test_keys(cfg: CFG, within: ast.AST | None = None) -> list[str]:
    """canonical keys of all condition atoms (optionally only those inside a given AST subtree),
    including the tests of conditional expressions in return statements."""
    keys: list[str] = []
    inner = {id(x) for x in ast.walk(within)} if within is not None else None
    for n in cfg.nodes:
        if n.kind == "test" and (inner is None or id(n.ast) in inner):
            k, _ = canon(n.ast)
            if k not in keys:
                keys.append(k)
        if n.kind == "stmt" and isinstance(n.ast, ast.Return) and n.ast.value is not None:
            for x in ast.walk(n.ast.value):
                if isinstance(x, ast.IfExp):
                    for a in _atoms(x.test):
                        k, _ = canon(a)
                        if k not in keys:
                            keys.append(k)
    return keys


def _atoms(e: ast.AST) -> list[ast.AST]:
    if isinstance(e, ast.BoolOp):
        out: list[ast.AST] = []
        for v in e.values:
            out.extend(_atoms(v))
        return out
    if isinstance(e, ast.UnaryOp) and isinstance(e.op, ast.Not):
        return _atoms(e.operand)
    return [e]


def decision_table(cfg: CFG, keys: list[str], consistent: t.Callable[[dict[str, bool]], bool] | None = None) -> list[tuple[dict[str, bool], list[Outcome]]]:
    """all valuations of ``keys`` (other atoms unknown) -> outcomes."""
    if len(keys) > 12:
        raise AnalysisError(f"decision table over {len(keys)} atoms is too large")
    rows = []
    for bits in itertools.product((False, True), repeat=len(keys)):
        v = dict(zip(keys, bits))
        if consistent is not None and not consistent(v):
            continue
        rows.append((v, simulate(cfg, lambda k, v=v: v.get(k))))
    return rows


# ---------------------------------------------------------------------
# copy propagation: `limit = self.max_form_memory_size` ... `if limit is not None and size > limit`


class Aliases:
    """expands local names that are plain aliases (single reaching definition whose value is an attribute chain, a
    name, a constant or len(<name>)) so that guards are compared on what they really test."""

    def __init__(self, cfg: CFG, rd) -> None:
        self.cfg = cfg
        self.rd = rd

    def _alias_value(self, name: str, node: Node, depth: int = 0) -> ast.AST | None:
        defs = self.rd.reaching(node, name)
        if len(defs) != 1:
            return None
        d = next(iter(defs))
        if d.kind != "assign" or d.index is not None or d.value is None:
            return None
        v = d.value
        ok = (
            isinstance(v, (ast.Attribute, ast.Name, ast.Constant))
            or (isinstance(v, ast.Call) and norm(v.func) == "len" and len(v.args) == 1 and isinstance(v.args[0], (ast.Name, ast.Attribute)))
            or (isinstance(v, ast.Subscript) and isinstance(v.value, (ast.Attribute, ast.Name)) and isinstance(v.slice, ast.Constant))
        )
        if not ok:
            return None
        # chains:  a = self.x; b = a
        if isinstance(v, ast.Name) and depth < 4 and d.node is not None:
            inner = self._alias_value(v.id, d.node, depth + 1)
            if inner is not None:
                return inner
        return v

    def expand(self, e: ast.AST, node: Node) -> ast.AST:
        fresh = ast.parse(ast.unparse(e), mode="eval").body
        aliases = self

        class T(ast.NodeTransformer):
            def visit_Name(self, n: ast.Name):  # noqa: N802
                if isinstance(n.ctx, ast.Load):
                    v = aliases._alias_value(n.id, node)
                    if v is not None:
                        return ast.parse(ast.unparse(v), mode="eval").body
                return n

        return ast.fix_missing_locations(T().visit(fresh))

    def guard_set(self, node: Node) -> set[tuple[str, bool]]:
        out = set()
        for tn, label in self.cfg.guards(node):
            if tn.kind != "test":
                continue
            for e in (tn.ast, self.expand(tn.ast, tn)):
                k, p = canon(e)
                out.add((k, (label == "T") == p))
        return out

    def canon(self, e: ast.AST, node: Node) -> tuple[str, bool]:
        return canon(self.expand(e, node))
