"""entry point: ./check <id> [--tier quick|thorough] [--repo PATH] [--replay FILE]

exit 0  every obligation discharged (known findings printed)
exit 1  VIOLATION line(s): an undischarged obligation not in known_findings.json
exit 2  ANALYSIS-ERROR: the machinery could not decide
"""

from __future__ import annotations

import argparse
import importlib
import json
import os
import sys
import traceback
from pathlib import Path

sys.path.insert(0, str(Path(__file__).resolve().parent.parent))
sys.dont_write_bytecode = True

from wzsa.loader import AnalysisError, Repo  # noqa: E402
from wzsa.report import Ctx, finish  # noqa: E402


def run_property(pid: str, repo_path: str, tier: str, write_evidence: bool = True, selftest: bool = True) -> int:
    try:
        mod = importlib.import_module(f"wzsa.rules.{pid.lower()}")
    except ModuleNotFoundError:
        print(f"ANALYSIS-ERROR property={pid} no rules for this property")
        return 2
    try:
        repo = Repo(repo_path)
        ctx = Ctx(pid, repo, tier)
        mod.run(ctx)
        if tier == "thorough" and hasattr(mod, "run_thorough"):
            mod.run_thorough(ctx)
        if tier == "thorough" and selftest and not ctx.errors:
            from wzsa import selftest as st
            from wzsa.report import has_new_violations

            if has_new_violations(ctx):
                # the tree itself violates a rule: report that; validating the checker against a tree under
                # suspicion would only turn the violation into self-validation noise
                ctx.note("self-validation skipped: the analysed tree has unlisted violations")
            else:
                st.run(ctx, pid, repo_path)
        return finish(ctx, mod.LEVEL_TEXT, mod.TRUSTED, mod.ASSUMPTIONS, write_evidence)
    except AnalysisError as e:
        print(f"ANALYSIS-ERROR property={pid} {type(e).__name__}: {e}")
        return 2
    except Exception as e:  # a crash of the checker is never a violation
        tb = traceback.format_exc().strip().splitlines()
        print(f"ANALYSIS-ERROR property={pid} checker crashed: {type(e).__name__}: {e}")
        for line in tb[-8:]:
            print("    " + line)
        return 2


def main() -> int:
    ap = argparse.ArgumentParser()
    ap.add_argument("pid")
    ap.add_argument("--tier", default=os.environ.get("VERIF_TIER") or "quick", choices=["quick", "thorough"])
    ap.add_argument("--repo", default="/repo")
    ap.add_argument("--replay")
    ap.add_argument("--no-evidence", action="store_true")
    ap.add_argument("--no-selftest", action="store_true")
    a = ap.parse_args()
    if a.replay:
        info = json.loads(Path(a.replay).read_text())
        print(f"replay: {info['loc']}: [{info['property']}-{info['rule']}] {info['instance']}: {info['fact']}")
        print(f"rule: {info.get('rule_text', '')}")
        print("re-running the rule on the current tree:")
        return run_property(info["property"], a.repo, "quick", write_evidence=False)
    return run_property(a.pid.upper(), a.repo, a.tier, not a.no_evidence, not a.no_selftest)


if __name__ == "__main__":
    rc = main()
    sys.stdout.flush()
    os._exit(rc)
