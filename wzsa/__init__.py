"""wzsa - static analysis of pallets/werkzeug for the properties in /verif/properties.jsonl.

Nothing in this package imports or executes werkzeug.  Everything is decided
from the syntax trees of /repo/src/werkzeug as they stand at the moment a
check runs.
"""
