"""MRO-resolved intra-class call closure: which primitive mutations of the
underlying storage are reachable from a method name on a concrete class.

Used by C08 (immutable variants reject every mutator) and C16 (every mutator
of a view notifies).
"""

from __future__ import annotations

import ast
import typing as t

from .cfg import cfg_of
from .loader import BuiltinClass, ClassInfo, FuncInfo, Repo, dotted, walk_no_nested

EXEMPT_ROOTS = {
    # constructors and the copy / pickle protocol build a *new* object or run before the object is shared
    "__init__", "__new__", "__setstate__", "__getstate__", "__reduce_ex__", "__reduce__", "fromkeys",
    "__init_subclass__", "__class_getitem__", "__getnewargs__", "__getnewargs_ex__", "__set_name__",
    "__subclasshook__",
}
# attribute writes that are caches, not state (one line of reason each)
CACHE_ATTRS = {"_hash_cache"}  # memoised hash of an immutable object

BUILTIN_KINDS = {"builtins.list": "list", "builtins.dict": "dict", "builtins.set": "set", "typing.MutableSet": "set", "typing.MutableMapping": "dict", "typing.MutableSequence": "list"}

DUNDER_FOR_OP = {
    ast.Add: "__iadd__", ast.Mult: "__imul__", ast.BitOr: "__ior__", ast.BitAnd: "__iand__", ast.Sub: "__isub__", ast.BitXor: "__ixor__",
}


class Site(t.NamedTuple):
    func: FuncInfo | None
    node: ast.AST | None
    desc: str


def all_mutator_names(repo: Repo) -> set[str]:
    return repo.mutators("list") | repo.mutators("dict") | repo.mutators("set")


def builtin_kind(repo: Repo, cls: ClassInfo) -> str | None:
    for k in repo.mro(cls):
        if isinstance(k, BuiltinClass) and k.fq in BUILTIN_KINDS:
            return BUILTIN_KINDS[k.fq]
    return None


def callable_names(repo: Repo, cls: ClassInfo) -> set[str]:
    """public or special method names callable on an instance of cls."""
    names: set[str] = set()
    for k in repo.mro(cls):
        if isinstance(k, BuiltinClass):
            names |= {n for n in k.method_names}
        else:
            names |= {n for n in k.methods if "." not in n}
    return {n for n in names if not n.startswith("_") or (n.startswith("__") and n.endswith("__"))}


def is_rejector(repo: Repo, fi: FuncInfo) -> tuple[bool, str]:
    """every path raises (no normal exit) and what is raised is TypeError."""
    cfg = cfg_of(fi)
    if cfg.exit.id in cfg.reach():
        return False, "has a normally-completing path"
    kinds = set()
    for n in walk_no_nested(fi.node):
        if isinstance(n, ast.Raise):
            e = n.exc.func if isinstance(n.exc, ast.Call) else n.exc
            kinds.add((dotted(e) or "?").rsplit(".", 1)[-1])
        elif isinstance(n, ast.Expr) and isinstance(n.value, ast.Call):
            d = dotted(n.value.func)
            if d and d.rsplit(".", 1)[-1] in cfg.noreturn:
                tgt = repo.resolve(fi.module, d)
                tf = repo.try_func(tgt) if tgt else None
                if tf is not None:
                    for r in walk_no_nested(tf.node):
                        if isinstance(r, ast.Raise):
                            e = r.exc.func if isinstance(r.exc, ast.Call) else r.exc
                            kinds.add((dotted(e) or "?").rsplit(".", 1)[-1])
                else:
                    kinds.add("?")
    if kinds <= {"TypeError"} and kinds:
        return True, "raises TypeError on every path"
    return False, f"raises {sorted(kinds)}"


class Closure:
    def __init__(self, repo: Repo, cls: ClassInfo):
        self.repo = repo
        self.cls = cls
        self.mut = all_mutator_names(repo)
        self._memo: dict[tuple[str, str], list[tuple[list[str], Site]]] = {}
        self._busy: set[tuple[str, str]] = set()

    # -- local facts ---------------------------------------------------
    def prim_sites(self, fi: FuncInfo) -> list[Site]:
        """primitive mutations written directly in fi's body."""
        out: list[Site] = []
        selfname = fi.params[0] if fi.params else "self"
        for n in walk_no_nested(fi.node):
            # self.attr = ... / self.attr[...] = ... / del self.attr[...] / self.attr += ...
            tgts: list[ast.AST] = []
            if isinstance(n, ast.Assign):
                tgts = list(n.targets)
            elif isinstance(n, (ast.AugAssign, ast.AnnAssign)):
                tgts = [n.target] if not (isinstance(n, ast.AnnAssign) and n.value is None) else []
            elif isinstance(n, ast.Delete):
                tgts = list(n.targets)
            flat: list[ast.AST] = []
            for tg in tgts:
                flat.extend(e for e in ast.walk(tg) if isinstance(e, (ast.Attribute, ast.Subscript)))
            for tg in flat:
                base = tg
                if isinstance(tg, ast.Subscript):
                    base = tg.value
                if isinstance(base, ast.Attribute) and isinstance(base.value, ast.Name) and base.value.id == selfname:
                    if base.attr in CACHE_ATTRS:
                        continue
                    if isinstance(tg, ast.Subscript) or tg is base:
                        if isinstance(getattr(tg, "ctx", None), (ast.Store, ast.Del)):
                            out.append(Site(fi, n, f"store into self.{base.attr}"))
            if isinstance(n, ast.Call) and isinstance(n.func, ast.Attribute):
                f = n.func
                # self.attr.mutator(...)
                if isinstance(f.value, ast.Attribute) and isinstance(f.value.value, ast.Name) and f.value.value.id == selfname and f.attr in self.mut:
                    out.append(Site(fi, n, f"self.{f.value.attr}.{f.attr}()"))
                # dict.mutator(self, ...) / list.mutator(self, ...)
                if isinstance(f.value, ast.Name) and f.value.id in ("dict", "list", "set") and f.attr in self.mut and n.args and isinstance(n.args[0], ast.Name) and n.args[0].id == selfname:
                    out.append(Site(fi, n, f"{f.value.id}.{f.attr}(self)"))
        return out

    def self_calls(self, fi: FuncInfo) -> list[tuple[str, str | None, ast.AST]]:
        """(method name, after-class-fq for super() or None, node)"""
        out: list[tuple[str, str | None, ast.AST]] = []
        selfname = fi.params[0] if fi.params else "self"
        for n in walk_no_nested(fi.node):
            if isinstance(n, ast.Call) and isinstance(n.func, ast.Attribute):
                f = n.func
                if isinstance(f.value, ast.Name) and f.value.id == selfname:
                    out.append((f.attr, None, n))
                elif isinstance(f.value, ast.Call) and dotted(f.value.func) == "super":
                    out.append((f.attr, fi.cls.fq if fi.cls else None, n))
            elif isinstance(n, (ast.Assign, ast.AugAssign)):
                tgts = n.targets if isinstance(n, ast.Assign) else [n.target]
                for tg in tgts:
                    for e in ast.walk(tg):
                        if isinstance(e, ast.Subscript) and isinstance(e.value, ast.Name) and e.value.id == selfname and isinstance(e.ctx, ast.Store):
                            out.append(("__setitem__", None, n))
                if isinstance(n, ast.AugAssign) and isinstance(n.target, ast.Name) and n.target.id == selfname:
                    dn = DUNDER_FOR_OP.get(type(n.op))
                    if dn:
                        out.append((dn, None, n))
            elif isinstance(n, ast.Delete):
                for tg in n.targets:
                    if isinstance(tg, ast.Subscript) and isinstance(tg.value, ast.Name) and tg.value.id == selfname:
                        out.append(("__delitem__", None, n))
        return out

    # -- closure ---------------------------------------------------------
    def reach(self, name: str, after: str | None = None, stop_at_rejectors: bool = True) -> list[tuple[list[str], Site]]:
        """primitive mutations reachable from calling ``name`` on an instance of
        self.cls: list of (call path, site)."""
        key = (name, after or "")
        if key in self._memo:
            return self._memo[key]
        if key in self._busy:
            return []
        self._busy.add(key)
        res: list[tuple[list[str], Site]] = []
        owner, what = self.repo.lookup(self.cls, name, after)
        if owner is None:
            pass
        elif what == "builtin":
            if name in self.mut and owner.fq in BUILTIN_KINDS:
                res.append(([f"{owner.name}.{name}"], Site(None, None, f"builtin {owner.name}.{name}")))
        elif isinstance(what, FuncInfo):
            label = f"{owner.name}.{name}"
            rej, _ = is_rejector(self.repo, what)
            prims = self.prim_sites(what)
            if rej and stop_at_rejectors:
                # a rejector must not mutate before it raises
                for s in prims:
                    res.append(([label], Site(s.func, s.node, s.desc + " before raising")))
            else:
                for s in prims:
                    res.append(([label], s))
                for cname, aft, node in self.self_calls(what):
                    for path, site in self.reach(cname, aft, stop_at_rejectors):
                        res.append(([label] + path, site))
        else:
            # class attribute (alias like ``__copy__ = copy`` or a descriptor): follow simple aliases
            if isinstance(what, ast.Name) and what.id != name:
                res = [([f"{owner.name}.{name}"] + p, s) for p, s in self.reach(what.id, None, stop_at_rejectors)]
        self._busy.discard(key)
        self._memo[key] = res
        return res
