"""Self-validation of the checker (thorough tier).

A committed battery of *mutants* (one obligation instance broken each) and
*neutral twins* (behaviour-preserving edits) is applied, one at a time, to a
scratch copy of the CURRENT tree's ``src/werkzeug`` (outside /repo and /verif,
removed immediately) and the same rules are run on the copy.

* a mutant that is not reported by the expected rule, or a twin that is
  reported, means the *checker* is broken on today's tree -> ANALYSIS-ERROR
  (exit 2), never a VIOLATION: the repository did nothing wrong;
* a mutant whose anchor text no longer exists in the tree is *skipped* and
  counted (the tree moved on; the battery is about the checker, not the tree).

Nothing here executes werkzeug: the mutated copy is only parsed.
"""

from __future__ import annotations

import concurrent.futures as cf
import importlib
import os
import shutil
import subprocess
import sys
import tempfile
from pathlib import Path

HERE = Path(__file__).resolve().parent


def _apply(src_root: Path, edits: list[tuple[str, str, str]]) -> str | None:
    for rel, old, new in edits:
        p = src_root / "src" / "werkzeug" / rel
        if not p.exists():
            return f"file {rel} missing"
        s = p.read_text()
        if s.count(old) != 1:
            return f"anchor text occurs {s.count(old)} times in {rel}"
        p.write_text(s.replace(old, new))
    return None


def _one(args):
    pid, repo_path, name, edits, expect = args
    tmp = Path(tempfile.mkdtemp(prefix="wzsa-"))
    try:
        (tmp / "src").mkdir()
        shutil.copytree(Path(repo_path) / "src" / "werkzeug", tmp / "src" / "werkzeug", ignore=shutil.ignore_patterns("__pycache__"))
        err = _apply(tmp, edits)
        if err:
            return name, "skipped", err
        # must still compile
        for rel, _, _ in edits:
            try:
                compile((tmp / "src" / "werkzeug" / rel).read_text(), rel, "exec")
            except SyntaxError as e:
                return name, "broken", f"mutant does not compile: {e}"
        r = subprocess.run(
            [sys.executable, "-B", str(HERE / "main.py"), pid, "--repo", str(tmp), "--tier", "quick", "--no-evidence"],
            capture_output=True, text=True, timeout=600,
        )
        out = r.stdout + r.stderr
        return name, (r.returncode, out), None
    finally:
        shutil.rmtree(tmp, ignore_errors=True)


def run(ctx, pid: str, repo_path: str) -> None:
    try:
        bat = importlib.import_module(f"wzsa.battery.{pid.lower()}")
    except ModuleNotFoundError:
        ctx.note("no self-validation battery for this property")
        return
    jobs = []
    for m in bat.MUTANTS:
        jobs.append((pid, repo_path, "mutant:" + m["name"], m["edits"], m["expect"]))
    for tw in getattr(bat, "TWINS", []):
        jobs.append((pid, repo_path, "twin:" + tw["name"], tw["edits"], None))
    expects = {j[2]: j[4] for j in jobs}
    results = {}
    with cf.ThreadPoolExecutor(max_workers=min(16, os.cpu_count() or 4)) as ex:
        for name, res, err in ex.map(_one, jobs):
            results[name] = (res, err)
    caught = missed = skipped = twin_ok = 0
    table = []
    for name, (res, err) in results.items():
        if res == "skipped":
            skipped += 1
            table.append({"case": name, "outcome": "skipped", "why": err})
            continue
        if res == "broken":
            ctx.error(f"self-validation: {name}: {err}")
            continue
        rc, out = res
        exp = expects[name]
        if name.startswith("mutant:"):
            hit = rc == 1 and f"[{pid}-{exp}]" in out
            if hit:
                caught += 1
                table.append({"case": name, "outcome": "reported", "rule": exp})
            else:
                missed += 1
                tail = " | ".join(out.strip().splitlines()[-3:])
                ctx.error(f"self-validation: {name} was NOT reported by {exp} (rc={rc}): {tail[:300]}")
        else:
            if rc == 0:
                twin_ok += 1
                table.append({"case": name, "outcome": "silent"})
            else:
                tail = " | ".join(l for l in out.strip().splitlines() if "VIOLATION" in l or "ANALYSIS-ERROR" in l or f"[{pid}-" in l)
                ctx.error(f"self-validation: neutral {name} raised an alarm (rc={rc}): {tail[:400]}")
    ctx.extra["self_validation"] = {
        "mutants_reported": caught, "mutants_missed": missed, "twins_silent": twin_ok, "skipped": skipped, "cases": table,
        "note": "mutants/twins are applied to a scratch copy of the current tree and only parsed, never executed",
    }
