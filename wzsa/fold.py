"""E3: constant folder, E4: regex sets.

The folder is a total evaluator for a side-effect-free subset of expressions.
Anything outside the subset raises :class:`Unfoldable`; rules turn that into
ANALYSIS-ERROR (they never pass on an unknown).
"""

from __future__ import annotations

import ast
import re
import typing as t

try:  # Python 3.11+
    import re._parser as sre_parse  # type: ignore
    import re._constants as sre_c  # type: ignore
except ImportError:  # pragma: no cover
    import sre_parse  # type: ignore
    import sre_constants as sre_c  # type: ignore

from .loader import AnalysisError, Module, Repo, dotted


class Unfoldable(AnalysisError):
    pass


class RegexConst:
    """folded ``re.compile(pattern, flags)``"""

    def __init__(self, pattern: str | bytes, flags: int):
        self.pattern = pattern
        self.flags = flags

    def __repr__(self) -> str:
        return f"RegexConst({self.pattern!r}, {self.flags})"

    def parsed(self):
        return sre_parse.parse(self.pattern, self.flags)


_SAFE_METHODS = {
    str: {"join", "lower", "upper", "encode", "format", "strip", "lstrip", "rstrip", "split", "replace", "title", "startswith", "endswith", "casefold"},
    bytes: {"join", "lower", "upper", "decode", "strip", "split", "replace", "hex"},
    frozenset: {"union", "difference", "intersection", "__or__"},
    set: {"union", "difference", "intersection"},
    dict: {"keys", "values", "items", "get", "copy"},
    list: {"copy", "index", "count"},
    int: {"to_bytes", "bit_length"},
    tuple: {"index", "count"},
}

_SAFE_BUILTINS: dict[str, t.Any] = {
    "frozenset": frozenset,
    "set": set,
    "tuple": tuple,
    "list": list,
    "dict": dict,
    "range": range,
    "chr": chr,
    "ord": ord,
    "len": len,
    "bytes": bytes,
    "str": str,
    "int": int,
    "sorted": sorted,
    "min": min,
    "max": max,
    "bool": bool,
    "zip": zip,
    "enumerate": enumerate,
    "map": None,  # handled specially? no: unfoldable
}

_RE_FLAGS = {"A": re.A, "ASCII": re.A, "I": re.I, "IGNORECASE": re.I, "X": re.X, "VERBOSE": re.X, "M": re.M, "MULTILINE": re.M, "S": re.S, "DOTALL": re.S, "U": re.U, "UNICODE": re.U}


class Folder:
    def __init__(self, repo: Repo):
        self.repo = repo
        self._memo: dict[tuple[str, str], t.Any] = {}
        self._busy: set[tuple[str, str]] = set()

    # -- public --------------------------------------------------------
    def name(self, module: Module | str, name: str) -> t.Any:
        """value of module-level ``name`` (applying later ``name.update(...)``,
        ``name[...] = ...`` statements at module level)."""
        if isinstance(module, str):
            module = self.repo.module(module)
        key = (module.name, name)
        if key in self._memo:
            return self._memo[key]
        if key in self._busy:
            raise Unfoldable(f"cyclic constant {module.name}.{name}")
        self._busy.add(key)
        try:
            if name not in module.assigns:
                if name in module.imports and module.imports[name].startswith("werkzeug"):
                    mn, _, n2 = module.imports[name].rpartition(".")
                    val = self.name(self.repo.module(mn), n2)
                    self._memo[key] = val
                    return val
                raise Unfoldable(f"{module.name}.{name} is not a module-level constant")
            val = self._module_value(module, name)
            self._memo[key] = val
            return val
        finally:
            self._busy.discard(key)

    def expr(self, module: Module | str, node: ast.AST, env: dict[str, t.Any] | None = None) -> t.Any:
        if isinstance(module, str):
            module = self.repo.module(module)
        return self._ev(module, node, env or {})

    # -- module-level replay --------------------------------------------
    def _module_value(self, module: Module, name: str) -> t.Any:
        """replay the module body top to bottom for statements touching name."""
        val: t.Any = _UNSET
        for st in module.tree.body:
            val = self._replay(module, st, name, val)
        if val is _UNSET:
            raise Unfoldable(f"{module.name}.{name}: no foldable assignment")
        return val

    def _replay(self, module: Module, st: ast.stmt, name: str, val: t.Any) -> t.Any:
        if isinstance(st, ast.Assign):
            for tg in st.targets:
                if isinstance(tg, ast.Name) and tg.id == name:
                    val = self._ev(module, st.value, {})
                elif isinstance(tg, ast.Subscript) and isinstance(tg.value, ast.Name) and tg.value.id == name:
                    if val is _UNSET:
                        raise Unfoldable(f"{name}[...] assigned before definition")
                    k = self._ev(module, tg.slice, {})
                    v = self._ev(module, st.value, {})
                    val = dict(val)
                    val[k] = v
                elif isinstance(tg, (ast.Tuple, ast.List)):
                    names = [e.id for e in tg.elts if isinstance(e, ast.Name)]
                    if name in names:
                        vs = list(self._ev(module, st.value, {}))
                        val = vs[names.index(name)]
        elif isinstance(st, ast.AnnAssign) and isinstance(st.target, ast.Name) and st.target.id == name and st.value is not None:
            val = self._ev(module, st.value, {})
        elif isinstance(st, ast.AugAssign) and isinstance(st.target, ast.Name) and st.target.id == name:
            cur = val
            if cur is _UNSET:
                raise Unfoldable(f"{name} augmented before definition")
            val = self._binop(st.op, cur, self._ev(module, st.value, {}))
        elif isinstance(st, ast.Expr) and isinstance(st.value, ast.Call):
            c = st.value
            if isinstance(c.func, ast.Attribute) and isinstance(c.func.value, ast.Name) and c.func.value.id == name:
                if val is _UNSET:
                    raise Unfoldable(f"{name}.{c.func.attr}() before definition")
                if c.func.attr == "update" and isinstance(val, dict):
                    val = dict(val)
                    for a in c.args:
                        val.update(self._ev(module, a, {}))
                    for kw in c.keywords:
                        if kw.arg is None:
                            val.update(self._ev(module, kw.value, {}))
                        else:
                            val[kw.arg] = self._ev(module, kw.value, {})
                elif c.func.attr in ("add", "append", "extend", "discard", "remove", "update"):
                    args = [self._ev(module, a, {}) for a in c.args]
                    if isinstance(val, (set, list)):
                        val = type(val)(val)
                        getattr(val, c.func.attr)(*args)
                    else:
                        raise Unfoldable(f"{name}.{c.func.attr} on {type(val).__name__}")
                else:
                    raise Unfoldable(f"module-level {name}.{c.func.attr}(...)")
        elif isinstance(st, ast.For):
            # for k in ...: name[k] = ...   (simple table-building loops)
            touches = any(
                isinstance(n, ast.Name) and n.id == name for n in ast.walk(st) if isinstance(getattr(n, "ctx", None), (ast.Load, ast.Store))
            )
            if touches and any(_writes_name(s, name) for s in ast.walk(st)):
                if val is _UNSET:
                    raise Unfoldable(f"loop writes {name} before definition")
                it = self._ev(module, st.iter, {})
                for item in it:
                    env: dict[str, t.Any] = {}
                    _bind(st.target, item, env)
                    for s in st.body:
                        val = self._replay_env(module, s, name, val, env)
        elif isinstance(st, (ast.If, ast.Try)):
            # module-level conditionals touching the constant are not folded
            for s in ast.walk(st):
                if _writes_name(s, name):
                    raise Unfoldable(f"{module.name}.{name} assigned under a module-level condition")
        return val

    def _replay_env(self, module, st, name, val, env):
        if isinstance(st, ast.Assign) and len(st.targets) == 1:
            tg = st.targets[0]
            if isinstance(tg, ast.Subscript) and isinstance(tg.value, ast.Name) and tg.value.id == name:
                k = self._ev(module, tg.slice, {**env, name: val})
                v = self._ev(module, st.value, {**env, name: val})
                val = dict(val)
                val[k] = v
                return val
        if any(_writes_name(s, name) for s in ast.walk(st)):
            raise Unfoldable(f"unsupported write to {name} in a module-level loop")
        return val

    # -- evaluator -------------------------------------------------------
    def _ev(self, m: Module, n: ast.AST, env: dict[str, t.Any]) -> t.Any:
        if isinstance(n, ast.Constant):
            return n.value
        if isinstance(n, ast.Name):
            if n.id in env:
                return env[n.id]
            if n.id in ("True", "False", "None"):
                return {"True": True, "False": False, "None": None}[n.id]
            if n.id in m.assigns or (n.id in m.imports and m.imports[n.id].startswith("werkzeug")):
                return self.name(m, n.id)
            raise Unfoldable(f"name {n.id} in {m.name}")
        if isinstance(n, (ast.Tuple, ast.List, ast.Set)):
            items: list[t.Any] = []
            for e in n.elts:
                if isinstance(e, ast.Starred):
                    items.extend(self._ev(m, e.value, env))
                else:
                    items.append(self._ev(m, e, env))
            return {ast.Tuple: tuple, ast.List: list, ast.Set: set}[type(n)](items)
        if isinstance(n, ast.Dict):
            d: dict[t.Any, t.Any] = {}
            for k, v in zip(n.keys, n.values):
                if k is None:
                    d.update(self._ev(m, v, env))
                else:
                    d[self._ev(m, k, env)] = self._ev(m, v, env)
            return d
        if isinstance(n, ast.JoinedStr):
            out = ""
            for v in n.values:
                if isinstance(v, ast.Constant):
                    out += str(v.value)
                elif isinstance(v, ast.FormattedValue):
                    val = self._ev(m, v.value, env)
                    if v.conversion == 114:
                        val = repr(val)
                    elif v.conversion == 115:
                        val = str(val)
                    spec = self._ev(m, v.format_spec, env) if v.format_spec else ""
                    out += format(val, spec)
            return out
        if isinstance(n, ast.BinOp):
            return self._binop(n.op, self._ev(m, n.left, env), self._ev(m, n.right, env))
        if isinstance(n, ast.UnaryOp):
            v = self._ev(m, n.operand, env)
            if isinstance(n.op, ast.USub):
                return -v
            if isinstance(n.op, ast.Not):
                return not v
            if isinstance(n.op, ast.Invert):
                return ~v
            raise Unfoldable("unary op")
        if isinstance(n, ast.BoolOp):
            vals = [self._ev(m, v, env) for v in n.values]
            r = vals[0]
            for v in vals[1:]:
                r = (r and v) if isinstance(n.op, ast.And) else (r or v)
            return r
        if isinstance(n, ast.Compare):
            left = self._ev(m, n.left, env)
            for op, c in zip(n.ops, n.comparators):
                right = self._ev(m, c, env)
                ok = _cmp(op, left, right)
                if not ok:
                    return False
                left = right
            return True
        if isinstance(n, ast.IfExp):
            return self._ev(m, n.body if self._ev(m, n.test, env) else n.orelse, env)
        if isinstance(n, ast.Subscript):
            v = self._ev(m, n.value, env)
            if isinstance(n.slice, ast.Slice):
                lo = self._ev(m, n.slice.lower, env) if n.slice.lower else None
                hi = self._ev(m, n.slice.upper, env) if n.slice.upper else None
                stp = self._ev(m, n.slice.step, env) if n.slice.step else None
                return v[lo:hi:stp]
            return v[self._ev(m, n.slice, env)]
        if isinstance(n, (ast.ListComp, ast.SetComp, ast.GeneratorExp, ast.DictComp)):
            return self._comp(m, n, env)
        if isinstance(n, ast.Attribute):
            d = dotted(n)
            if d:
                fq = self.repo.resolve(m, d)
                if fq and fq.startswith("re.") and fq[3:] in _RE_FLAGS:
                    return _RE_FLAGS[fq[3:]]
                if fq and fq.startswith("werkzeug."):
                    mn, _, nm = fq.rpartition(".")
                    if mn in self.repo.modules:
                        return self.name(self.repo.modules[mn], nm)
            raise Unfoldable(f"attribute {ast.unparse(n)}")
        if isinstance(n, ast.Call):
            return self._call(m, n, env)
        if isinstance(n, ast.Starred):
            raise Unfoldable("starred")
        raise Unfoldable(f"{type(n).__name__}: {ast.unparse(n)[:60]}")

    def _comp(self, m: Module, n: ast.AST, env: dict[str, t.Any]) -> t.Any:
        results: list[t.Any] = []

        def rec(i: int, env: dict[str, t.Any]) -> None:
            gens = n.generators  # type: ignore[attr-defined]
            if i == len(gens):
                if isinstance(n, ast.DictComp):
                    results.append((self._ev(m, n.key, env), self._ev(m, n.value, env)))
                else:
                    results.append(self._ev(m, n.elt, env))  # type: ignore[attr-defined]
                return
            g = gens[i]
            for item in self._ev(m, g.iter, env):
                e2 = dict(env)
                _bind(g.target, item, e2)
                if all(self._ev(m, c, e2) for c in g.ifs):
                    rec(i + 1, e2)

        rec(0, env)
        if isinstance(n, ast.ListComp):
            return results
        if isinstance(n, ast.SetComp):
            return set(results)
        if isinstance(n, ast.DictComp):
            return dict(results)
        return results  # generator: materialised

    def _call(self, m: Module, n: ast.Call, env: dict[str, t.Any]) -> t.Any:
        if any(isinstance(a, ast.Starred) for a in n.args):
            raise Unfoldable("starred call")
        f = n.func
        if isinstance(f, ast.Attribute):
            d = dotted(f)
            fq = self.repo.resolve(m, d) if d and isinstance(f.value, ast.Name) and f.value.id not in env else None
            if fq == "re.compile":
                pat = self._ev(m, n.args[0], env)
                flags = 0
                if len(n.args) > 1:
                    flags = self._ev(m, n.args[1], env)
                for kw in n.keywords:
                    if kw.arg == "flags":
                        flags = self._ev(m, kw.value, env)
                return RegexConst(pat, int(flags))
            if fq == "re.escape":
                return re.escape(self._ev(m, n.args[0], env))
            if fq in ("string.ascii_letters", "string.digits"):
                raise Unfoldable(fq)
            recv = self._ev(m, f.value, env)
            args = [self._ev(m, a, env) for a in n.args]
            kwargs = {kw.arg: self._ev(m, kw.value, env) for kw in n.keywords if kw.arg}
            for ty, names in _SAFE_METHODS.items():
                if isinstance(recv, ty) and f.attr in names:
                    return getattr(recv, f.attr)(*args, **kwargs)
            raise Unfoldable(f"method {type(recv).__name__}.{f.attr}")
        if isinstance(f, ast.Name):
            if f.id in _SAFE_BUILTINS and _SAFE_BUILTINS[f.id] is not None and f.id not in m.assigns and f.id not in m.functions:
                args = [self._ev(m, a, env) for a in n.args]
                kwargs = {kw.arg: self._ev(m, kw.value, env) for kw in n.keywords if kw.arg}
                r = _SAFE_BUILTINS[f.id](*args, **kwargs)
                if isinstance(r, (zip, enumerate)):
                    r = list(r)
                return r
            fq = self.repo.resolve(m, f.id)
            if fq == "re.compile":
                pat = self._ev(m, n.args[0], env)
                flags = self._ev(m, n.args[1], env) if len(n.args) > 1 else 0
                for kw in n.keywords:
                    if kw.arg == "flags":
                        flags = self._ev(m, kw.value, env)
                return RegexConst(pat, int(flags))
        raise Unfoldable(f"call {ast.unparse(n)[:60]}")

    @staticmethod
    def _binop(op: ast.operator, a: t.Any, b: t.Any) -> t.Any:
        if isinstance(op, ast.Add):
            return a + b
        if isinstance(op, ast.Sub):
            return a - b
        if isinstance(op, ast.Mult):
            return a * b
        if isinstance(op, ast.Mod):
            return a % b
        if isinstance(op, ast.BitOr):
            return a | b
        if isinstance(op, ast.BitAnd):
            return a & b
        if isinstance(op, ast.BitXor):
            return a ^ b
        if isinstance(op, ast.FloorDiv):
            return a // b
        if isinstance(op, ast.LShift):
            return a << b
        raise Unfoldable(f"binop {type(op).__name__}")


class _Unset:
    def __repr__(self) -> str:
        return "<unset>"


_UNSET = _Unset()


def _writes_name(s: ast.AST, name: str) -> bool:
    if isinstance(s, ast.Name) and s.id == name and isinstance(s.ctx, ast.Store):
        return True
    if isinstance(s, ast.Subscript) and isinstance(s.ctx, (ast.Store, ast.Del)) and isinstance(s.value, ast.Name) and s.value.id == name:
        return True
    if isinstance(s, ast.Call) and isinstance(s.func, ast.Attribute) and isinstance(s.func.value, ast.Name) and s.func.value.id == name and s.func.attr in (
        "update", "add", "append", "extend", "pop", "clear", "remove", "discard", "setdefault", "insert",
    ):
        return True
    return False


def _bind(target: ast.AST, value: t.Any, env: dict[str, t.Any]) -> None:
    if isinstance(target, ast.Name):
        env[target.id] = value
    elif isinstance(target, (ast.Tuple, ast.List)):
        vals = list(value)
        if len(vals) != len(target.elts):
            raise Unfoldable("unpack arity")
        for e, v in zip(target.elts, vals):
            _bind(e, v, env)
    else:
        raise Unfoldable("bind target")


def _cmp(op: ast.cmpop, a: t.Any, b: t.Any) -> bool:
    if isinstance(op, ast.Eq):
        return a == b
    if isinstance(op, ast.NotEq):
        return a != b
    if isinstance(op, ast.Lt):
        return a < b
    if isinstance(op, ast.LtE):
        return a <= b
    if isinstance(op, ast.Gt):
        return a > b
    if isinstance(op, ast.GtE):
        return a >= b
    if isinstance(op, ast.In):
        return a in b
    if isinstance(op, ast.NotIn):
        return a not in b
    if isinstance(op, ast.Is):
        return a is b
    if isinstance(op, ast.IsNot):
        return a is not b
    raise Unfoldable("cmp")


# ---------------------------------------------------------------------
# E4: regex sets


def _universe(rx: RegexConst) -> int:
    """size of the code-point universe used for explicit classes: 256 for
    bytes patterns, 0x110000 for str patterns."""
    return 256 if isinstance(rx.pattern, bytes) else 0x110000


def _category(cat, c: int, flags: int, is_bytes: bool) -> bool:
    ascii_only = bool(flags & re.A) or is_bytes
    ch = chr(c)
    name = str(cat)
    if "NOT_" in name:
        base = name.replace("NOT_", "")
        return not _category_name(base, c, ch, ascii_only)
    return _category_name(name, c, ch, ascii_only)


def _category_name(name: str, c: int, ch: str, ascii_only: bool) -> bool:
    if name.endswith("DIGIT"):
        return (48 <= c <= 57) if ascii_only else ch.isdigit() or ch.isdecimal()
    if name.endswith("SPACE"):
        return ch in " \t\n\r\f\v" if ascii_only else ch.isspace()
    if name.endswith("WORD"):
        if ascii_only:
            return (48 <= c <= 57) or (65 <= c <= 90) or (97 <= c <= 122) or c == 95
        return ch.isalnum() or ch == "_"
    raise Unfoldable(f"regex category {name}")


def class_of_items(items, flags: int, is_bytes: bool, limit: int) -> set[int]:
    """explicit member set of an IN item list, restricted to [0, limit)."""
    neg = False
    out: set[int] = set()
    for op, av in items:
        if op is sre_c.NEGATE:
            neg = True
        elif op is sre_c.LITERAL:
            if av < limit:
                out.add(av)
        elif op is sre_c.RANGE:
            lo, hi = av
            out.update(range(lo, min(hi, limit - 1) + 1))
        elif op is sre_c.CATEGORY:
            out.update(c for c in range(limit) if _category(av, c, flags, is_bytes))
        else:
            raise Unfoldable(f"regex class item {op}")
    if flags & re.I:
        extra = set()
        for c in out:
            ch = chr(c)
            for v in (ch.lower(), ch.upper()):
                if len(v) == 1 and ord(v) < limit:
                    extra.add(ord(v))
        out |= extra
    if neg:
        out = set(range(limit)) - out
    return out


def single_class(rx: RegexConst, limit: int = 256) -> tuple[set[int], tuple[int, int]]:
    """For a pattern of the shape ``CLASS``, ``CLASS+``, ``CLASS*`` ... return
    (members below limit, (min repeat, max repeat)).  Unfoldable otherwise."""
    p = rx.parsed()
    items = list(p)
    if len(items) != 1:
        raise Unfoldable(f"pattern {rx.pattern!r} is not a single class")
    return _class_of_node(items[0], rx, limit)


def _class_of_node(node, rx: RegexConst, limit: int) -> tuple[set[int], tuple[int, int]]:
    op, av = node
    is_bytes = isinstance(rx.pattern, bytes)
    if op in (sre_c.MAX_REPEAT, sre_c.MIN_REPEAT):
        lo, hi, sub = av
        subitems = list(sub)
        if len(subitems) != 1:
            raise Unfoldable("repeat of a non-class")
        cls, _ = _class_of_node(subitems[0], rx, limit)
        return cls, (lo, int(hi) if hi is not sre_c.MAXREPEAT else 10**9)
    if op is sre_c.IN:
        return class_of_items(av, rx.flags, is_bytes, limit), (1, 1)
    if op is sre_c.LITERAL:
        return ({av} if av < limit else set()), (1, 1)
    if op is sre_c.NOT_LITERAL:
        return set(range(limit)) - {av}, (1, 1)
    if op is sre_c.ANY:
        s = set(range(limit))
        if not rx.flags & re.S:
            s.discard(10)
        return s, (1, 1)
    if op is sre_c.SUBPATTERN:
        sub = list(av[3])
        if len(sub) == 1:
            return _class_of_node(sub[0], rx, limit)
    raise Unfoldable(f"regex node {op}")


def classes_in(rx: RegexConst, limit: int = 256) -> list[set[int]]:
    """every character class occurring anywhere in the pattern, in order."""
    out: list[set[int]] = []
    is_bytes = isinstance(rx.pattern, bytes)

    def rec(seq) -> None:
        for op, av in seq:
            if op is sre_c.IN:
                out.append(class_of_items(av, rx.flags, is_bytes, limit))
            elif op in (sre_c.MAX_REPEAT, sre_c.MIN_REPEAT, sre_c.POSSESSIVE_REPEAT if hasattr(sre_c, "POSSESSIVE_REPEAT") else None):
                rec(av[2])
            elif op is sre_c.SUBPATTERN:
                rec(av[3])
            elif op is sre_c.BRANCH:
                for b in av[1]:
                    rec(b)
            elif op in (sre_c.ASSERT, sre_c.ASSERT_NOT):
                rec(av[1])
            elif op is sre_c.GROUPREF_EXISTS:
                rec(av[1])
                if av[2]:
                    rec(av[2])
            elif hasattr(sre_c, "ATOMIC_GROUP") and op is sre_c.ATOMIC_GROUP:
                rec(av)

    rec(rx.parsed())
    return out


def width(rx: RegexConst) -> tuple[int, int]:
    lo, hi = rx.parsed().getwidth()
    return int(lo), int(hi)


def group_count(rx: RegexConst) -> int:
    return rx.parsed().state.groups - 1


def group_width(rx: RegexConst, group: int) -> tuple[int, int]:
    """(min,max) width of capture group ``group``."""
    res: list[tuple[int, int]] = []

    def rec(seq) -> None:
        for op, av in seq:
            if op is sre_c.SUBPATTERN:
                if av[0] == group:
                    lo, hi = av[3].getwidth()
                    res.append((int(lo), int(hi)))
                rec(av[3])
            elif op in (sre_c.MAX_REPEAT, sre_c.MIN_REPEAT):
                rec(av[2])
            elif op is sre_c.BRANCH:
                for b in av[1]:
                    rec(b)
            elif op in (sre_c.ASSERT, sre_c.ASSERT_NOT):
                rec(av[1])

    rec(rx.parsed())
    if not res:
        raise Unfoldable(f"group {group} not found in {rx.pattern!r}")
    return res[0]


def matches_const(rx: RegexConst, s: str | bytes, full: bool = True) -> bool:
    """membership of a *constant* in the language of a *folded* pattern.
    (Uses the ``re`` engine on two constants taken from the source; no
    werkzeug code is executed.)"""
    c = re.compile(rx.pattern, rx.flags)
    return bool(c.fullmatch(s) if full else c.search(s))
