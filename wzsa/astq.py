"""small AST query helpers shared by the rules."""

from __future__ import annotations

import ast
import typing as t

from .loader import FuncInfo, const_str, dotted, is_self_attr, walk_no_nested  # noqa: F401


def calls(node: ast.AST, nested: bool = True) -> list[ast.Call]:
    it = ast.walk(node) if nested else walk_no_nested(node)
    return [n for n in it if isinstance(n, ast.Call)]


def method_calls(node: ast.AST, attr: str, nested: bool = True) -> list[ast.Call]:
    return [c for c in calls(node, nested) if isinstance(c.func, ast.Attribute) and c.func.attr == attr]


def name_calls(node: ast.AST, name: str, nested: bool = True) -> list[ast.Call]:
    """calls whose callee's last dotted component is ``name``."""
    out = []
    for c in calls(node, nested):
        d = dotted(c.func)
        if d and d.rsplit(".", 1)[-1] == name:
            out.append(c)
    return out


def assigns_to(node: ast.AST, name: str, nested: bool = False) -> list[tuple[ast.stmt, ast.AST | None]]:
    """(statement, value) for every binding of local ``name`` (Assign, AnnAssign,
    AugAssign, walrus; tuple targets give value None)."""
    out: list[tuple[ast.stmt, ast.AST | None]] = []
    it = ast.walk(node) if nested else walk_no_nested(node)
    for n in it:
        if isinstance(n, ast.Assign):
            for tg in n.targets:
                if isinstance(tg, ast.Name) and tg.id == name:
                    out.append((n, n.value))
                elif isinstance(tg, (ast.Tuple, ast.List)) and any(isinstance(e, ast.Name) and e.id == name for e in ast.walk(tg)):
                    out.append((n, None))
        elif isinstance(n, ast.AnnAssign) and isinstance(n.target, ast.Name) and n.target.id == name and n.value is not None:
            out.append((n, n.value))
        elif isinstance(n, ast.AugAssign) and isinstance(n.target, ast.Name) and n.target.id == name:
            out.append((n, None))
        elif isinstance(n, ast.NamedExpr) and n.target.id == name:
            out.append((n, n.value))  # type: ignore[arg-type]
        elif isinstance(n, (ast.For, ast.AsyncFor)) and any(isinstance(e, ast.Name) and e.id == name for e in ast.walk(n.target)):
            out.append((n, None))
        elif isinstance(n, (ast.With, ast.AsyncWith)):
            for it_ in n.items:
                if it_.optional_vars is not None and any(isinstance(e, ast.Name) and e.id == name for e in ast.walk(it_.optional_vars)):
                    out.append((n, None))
    out.sort(key=lambda p: (getattr(p[0], "lineno", 0), getattr(p[0], "col_offset", 0)))
    return out


def names_in(node: ast.AST) -> set[str]:
    return {n.id for n in ast.walk(node) if isinstance(n, ast.Name)}


def kwarg(call: ast.Call, name: str) -> ast.AST | None:
    for kw in call.keywords:
        if kw.arg == name:
            return kw.value
    return None


def arg_or_kw(call: ast.Call, pos: int, name: str) -> ast.AST | None:
    v = kwarg(call, name)
    if v is not None:
        return v
    if pos < len(call.args) and not any(isinstance(a, ast.Starred) for a in call.args[: pos + 1]):
        return call.args[pos]
    return None


def has_double_star(call: ast.Call) -> bool:
    return any(kw.arg is None for kw in call.keywords)


def method_chain(node: ast.AST) -> list[tuple[str, ast.Call]]:
    """``x.a(..).b(..).c(..)`` -> [("a",call), ("b",call), ("c",call)] (inner first)."""
    out: list[tuple[str, ast.Call]] = []
    cur = node
    while isinstance(cur, ast.Call) and isinstance(cur.func, ast.Attribute):
        out.append((cur.func.attr, cur))
        cur = cur.func.value
    out.reverse()
    return out


def chain_root(node: ast.AST) -> ast.AST:
    cur = node
    while True:
        if isinstance(cur, ast.Call) and isinstance(cur.func, ast.Attribute):
            cur = cur.func.value
        elif isinstance(cur, ast.Subscript):
            cur = cur.value
        elif isinstance(cur, ast.Attribute):
            cur = cur.value
        else:
            return cur


def is_name(node: ast.AST | None, name: str | None = None) -> bool:
    return isinstance(node, ast.Name) and (name is None or node.id == name)


def is_none(node: ast.AST | None) -> bool:
    return isinstance(node, ast.Constant) and node.value is None


def cmp_parts(node: ast.AST) -> tuple[ast.AST, ast.cmpop, ast.AST] | None:
    if isinstance(node, ast.Compare) and len(node.ops) == 1:
        return node.left, node.ops[0], node.comparators[0]
    return None


def raises_of(node: ast.AST, nested: bool = False) -> list[ast.Raise]:
    it = ast.walk(node) if nested else walk_no_nested(node)
    return [n for n in it if isinstance(n, ast.Raise)]


def raised_name(r: ast.Raise) -> str | None:
    e = r.exc
    if isinstance(e, ast.Call):
        e = e.func
    d = dotted(e) if e is not None else None
    return d.rsplit(".", 1)[-1] if d else None


def stmt_of(fi: FuncInfo, node: ast.AST) -> ast.stmt | None:
    cur: t.Any = node
    while cur is not None and not isinstance(cur, ast.stmt):
        cur = getattr(cur, "_parent", None)
    return cur


def parent(node: ast.AST) -> ast.AST | None:
    return getattr(node, "_parent", None)


def enclosing(node: ast.AST, kinds: tuple[type, ...]) -> ast.AST | None:
    cur = parent(node)
    while cur is not None and not isinstance(cur, kinds):
        cur = parent(cur)
    return cur


def returns_of(fn: ast.AST) -> list[ast.Return]:
    return [n for n in walk_no_nested(fn) if isinstance(n, ast.Return)]
